"""
C01 - parsing and rendering are total and terminate for every input.

Decided statically (necessary conditions of totality, over every path of the code reachable from
mistletoe.markdown / Renderer(**options).render(Document(x)) for all bundled renderer configurations):
  R-MAP           every token class that can be instantiated under a configuration has a handler in the
                  statically evaluated render_map, and the renderer can be constructed.
  R-RENDER-TOTAL  no path of any render method, interpreted abstractly on an abstract token of each class
                  routed to it (attributes from the constructor facts; children of unknown, possibly zero,
                  number), raises: no missing attribute, no index into an empty container, no unbound
                  local, no failed unpacking - except the documented refusals.
  R-CTOR-TOTAL    no path of the simulated start -> read -> construct protocol of any block class, nor of
                  any span constructor, raises - except audited cases backed by a checked invariant.
  R-SIBLING-RX    L_match(List.pattern) is included in L_match(ListItem.pattern)  (List.start admits a line
                  only if ListItem.parse_marker accepts it).
  R-RAISE         the raise statements reachable from the entry points are exactly the audited set.
  R-IDX           every potentially raising primitive in the parser modules (index, next(), pop, unpack of a
                  call result, int()) is discharged by a recognised guard idiom or an audited entry.
  R-LOOP          every while loop (and for loop over the line cursor) has a recognised progress variant.
"""

import ast
import re

from .. import rx, blockproto
from ..domains import AbsStr, AbsSeq, AbsInt, Cond
from ..interp import (AbstractValue, Interp, Oracle, Obj, Unknown, enumerate_paths, Raised, is_abstract, RxVal, MISSING)
from ..model import AnalysisError, ClassInfo, FuncInfo, loc, walk_function, PKG
from ..report import load_audit
from .. import templates as T
from .. import tokens as tk
from ..par import pmap
from .c08 import get_facts, universe, replay
from .c09 import md_hooks

EXPLANATION = (
    "Totality is attacked through its structural necessary conditions. (1) Handler exhaustiveness: for each "
    "of the bundled renderers and each valuation of their boolean options the constructor chain is "
    "interpreted to obtain token lists and render_map; every instantiable class must have a handler. (2) "
    "Every render method is interpreted abstractly on an abstract token of every class routed to it, with "
    "attributes taken from the constructor facts and children of unknown (possibly zero) number; any "
    "raising path other than the two documented refusals is a violation. (3) The start->read->construct "
    "protocol of every block class and every span constructor is interpreted over abstract lines; raising "
    "paths must be audited with a backing invariant that is itself decided (e.g. a regex language "
    "inclusion between sibling patterns). (4) A raise inventory over the call graph, (5) a lint of partial "
    "operations in the parser with a catalogue of guard idioms and an audit table, and (6) a loop-variant "
    "lint. Not decided: absence of all exceptions inside library calls, recursion depth, termination of "
    "the regex engine; no wall-clock claim.")

DOCUMENTED_REFUSALS = {
    ('latex_renderer.LaTeXRenderer.render_inline_code', 'RuntimeError'),
    ('contrib.pygments_renderer.PygmentsRenderer.render_block_code', 'unknown'),      # raise err (ClassNotFound), option-gated
    ('contrib.pygments_renderer.PygmentsRenderer.render_block_code', 'reraise'),
}

PARSER_MODULES = ('block_token', 'block_tokenizer', 'span_token', 'span_tokenizer', 'core_tokens', 'token', 'latex_token',
                  'markdown_renderer', 'contrib.github_wiki')


# --------------------------------------------------------------------------- R-MAP

def rule_map(ctx, rep, facts):
    model = ctx.model
    rep.rule('R-MAP', 'every instantiable token class has a render handler in every configuration')
    for cfg in ctx.configs():
        rep.instance('R-MAP')
        if cfg.error is not None:
            rep.obligation('R-MAP', False, {'config': cfg.key(), 'constructor raises': repr(cfg.error.exc)})
            rep.find('R-MAP', cfg.cls.short + '.__init__', 'constructor(%s)' % cfg.key(),
                     '%s cannot be constructed: %s %s (a token class passed as extra has no render method?)'
                     % (cfg.key(), cfg.error.exc.kind, cfg.error.exc.args), loc(model.unit_of(cfg.cls), cfg.cls.node))
            continue
        total_render = _render_is_total(cfg)
        for cls in sorted(universe(cfg, facts), key=lambda c: c.short):
            h = cfg.render_map.get(cls.name)
            ok = isinstance(h, FuncInfo) or h == 'getattr-fallback' or total_render
            rep.obligation('R-MAP', ok, {'config': cfg.key(), 'class': cls.name, 'handler': getattr(h, 'short', h)})
            if not ok:
                rep.find('R-MAP', cfg.cls.short, 'render_map[%s]' % cls.name,
                         'under %s a %s token can be produced but render_map has no entry for it: render() raises KeyError'
                         % (cfg.key(), cls.name), loc(model.unit_of(cfg.cls), cfg.cls.node))
    rep.floor('R-MAP', rep.rules['R-MAP']['obligations'], 200)


def _render_is_total(cfg):
    """A renderer whose `render` does not dispatch through render_map (AstRenderer)."""
    hit = cfg.cls.lookup('render')
    if hit is None or hit[0] != 'method':
        return False
    return 'render_map' not in ast.unparse(hit[1].node)


# --------------------------------------------------------------------------- R-RENDER-TOTAL

def _render_task(args):
    model, cfg, facts, key, func, cls = args
    is_md = 'max_line_length' in func.params()
    recs = []
    n = 0

    def hooks(it):
        if is_md or cfg.label == 'MarkdownRenderer':
            md_hooks(model, cfg)(it)
    extra = None
    if is_md:
        extra = [AbsInt('max_line_length')]
    try:
        outs = T.run_render_method(model, cfg, func, cls, facts, extra_hooks=hooks, extra_args=extra, max_paths=4000)
    except AnalysisError as e:
        return key, func.short, [('analysis', str(e))], 0
    for po in outs:
        if po.truncated:
            continue
        n += 1
        if po.raised is not None:
            exc = po.raised.exc
            where = _raise_site(po.raised, func)
            recs.append(('raise', exc.kind, tuple(str(a)[:60] for a in exc.args), where))
    return key, func.short, recs, n


def _raise_site(raised, func):
    node = raised.node
    if node is not None and hasattr(node, 'lineno'):
        try:
            return ast.unparse(node)[:60]
        except Exception:
            return ''
    return ''


def rule_render_total(ctx, rep, facts):
    model = ctx.model
    rep.rule('R-RENDER-TOTAL', 'no render method has a raising path on any instantiable token (documented refusals excepted)')
    tasks = []
    for cfg in ctx.configs():
        if cfg.error is not None:
            continue
        uni = universe(cfg, facts)
        by_name = {}
        for c in uni:
            by_name.setdefault(c.name, []).append(c)
        if not _render_is_total(cfg):
            for key, func in sorted(cfg.render_map.items()):
                if not isinstance(func, FuncInfo):
                    continue
                for cls in by_name.get(key, []):
                    tasks.append((model, cfg, facts, key, func, cls))
        # renderers whose render() does not dispatch: analyse render itself on every class
        else:
            r = cfg.cls.lookup('render')[1]
            for cls in sorted(uni, key=lambda c: c.short):
                tasks.append((model, cfg, facts, cls.name, r, cls))
    # helpers that walk a token's descendants themselves (render_to_plain for an image description): every inline
    # token class can be among the descendants, so the helper is analysed on each of them
    span_base = model.classes.get(PKG + '.span_token.SpanToken')
    for cfg in ctx.configs():
        if cfg.error is not None or span_base is None:
            continue
        mapped = {f.qualname for f in cfg.render_map.values() if isinstance(f, FuncInfo)}
        seen_h = set()
        for c in cfg.cls.mro():
            if not isinstance(c, ClassInfo):
                continue
            for name, fi in c.methods.items():
                hit = cfg.cls.lookup(name)
                if hit is None or hit[1] is not fi or fi.qualname in mapped or name in seen_h or len(fi.params()) != 2:
                    continue
                recursive = any(isinstance(x, ast.Attribute) and x.attr == name and isinstance(x.value, ast.Name)
                                and x.value.id == fi.params()[0] for x in ast.walk(fi.node))
                reads_children = any(isinstance(x, ast.Attribute) and x.attr == 'children' for x in ast.walk(fi.node))
                if not (recursive and reads_children):
                    continue
                seen_h.add(name)
                for cls in sorted(universe(cfg, facts), key=lambda c_: c_.short):
                    if cls.is_subclass_of(span_base):
                        tasks.append((model, cfg, facts, cls.name, fi, cls))
    results = pmap(_render_task, tasks)
    n_methods = set()
    for (model_, cfg, facts_, key, func, cls), (k, fshort, recs, n) in zip(tasks, results):
        rep.instance('R-RENDER-TOTAL')
        n_methods.add(fshort)
        bad = []
        for r in recs:
            if r[0] == 'analysis':
                raise AnalysisError('%s on %s: %s' % (fshort, key, r[1]))
            kind, args, where = r[1], r[2], r[3]
            if (fshort, kind) in DOCUMENTED_REFUSALS:
                rep.note('%s raises %s (documented refusal)' % (fshort, kind))
                continue
            bad.append((kind, args, where))
        rep.obligation('R-RENDER-TOTAL', not bad, {'config': cfg.key(), 'method': fshort, 'token': key, 'paths': n})
        for kind, args, where in bad:
            what = where or (args[0] if args else '')
            rep.find('R-RENDER-TOTAL', fshort, '%s:%s@%s' % (kind, key, _norm(what)),
                     '%s raises %s on a %s token (%s %s) under %s' % (fshort, kind, key, what, args if where else '', cfg.key()),
                     loc(model.unit_of(func), func.node))
    rep.floor('R-RENDER-TOTAL', len(n_methods), 100)
    rep.extra['render_methods_analysed'] = len(n_methods)


def _norm(s):
    return re.sub(r'\s+', '', str(s))[:50]


# --------------------------------------------------------------------------- R-CTOR-TOTAL / R-SIBLING-RX

RX_FUNCS = {'re.compile': 0, 're.match': 0, 're.search': 0, 're.fullmatch': 0, 're.sub': 0, 're.subn': 0, 're.split': 0,
            're.findall': 0, 're.finditer': 0}


def regex_constants(model):
    """Every regular expression the package hands to the re module: (unit, node, pattern, flags) for the ones
    whose pattern folds to a constant, (unit, node, None, None) for the others."""
    from ..interp import Frame
    out = []
    for u in model.units.values():
        owners = {}
        for c in model.classes.values():
            if c.modname == u.modname:
                for n in ast.walk(c.node):
                    owners.setdefault(id(n), c)
        for n in ast.walk(u.tree):
            if not isinstance(n, ast.Call):
                continue
            try:
                ref = model.resolve_expr(u.modname, n.func)
            except Exception:
                ref = None
            d = getattr(ref, 'dotted', None)
            if d not in RX_FUNCS or not n.args:
                continue
            it = Interp(model)
            it.reset_run(Oracle())
            owner = owners.get(id(n))
            fr = Frame(None, u.modname, {}, cls=owner)
            if owner is not None:
                fr.class_scope = owner
            try:
                pat = it.eval(n.args[0], fr)
                flags = 0
                fl = [k.value for k in n.keywords if k.arg == 'flags']
                if d == 're.compile' and len(n.args) > 1:
                    fl = [n.args[1]]
                if fl:
                    flags = it.eval(fl[0], fr)
                if isinstance(pat, RxVal):
                    pat, flags = pat.pattern, pat.flags
            except Exception:
                pat, flags = None, None
            if isinstance(pat, str) and isinstance(flags, int):
                out.append((u, n, pat, int(flags)))
            else:
                out.append((u, n, None, None))
    return out


def rule_rx_backtrack(ctx, rep):
    """Termination of the regex engine, the exponential part: no regular expression of the package lets a text be
    consumed by one of its loops in two different ways (sa/redos.py). Patterns that are not constants are listed."""
    from .. import redos
    model = ctx.model
    rule = 'R-RX-BACKTRACK'
    rep.rule(rule, 'no regular expression can consume a text in two different ways inside a loop (exponential backtracking)')
    n = 0
    undecided = []
    seen = set()
    for u, node, pat, flags in regex_constants(model):
        if pat is None:
            undecided.append('%s:%d' % (u.relpath, node.lineno))
            continue
        if (pat, flags) in seen:
            continue
        seen.add((pat, flags))
        rep.instance(rule)
        n += 1
        try:
            hit = redos.exponential(pat, flags)
        except rx.RxUnsupported as e:
            undecided.append('%s:%d (%s)' % (u.relpath, node.lineno, e))
            continue
        rep.obligation(rule, hit is None, {'pattern': pat[:80], 'where': '%s:%d' % (u.relpath, node.lineno), 'finding': hit[0] if hit else None})
        if hit is not None:
            kind, why, attack = hit
            owner = model.enclosing_function(node)
            rep.find(rule, owner.short if owner is not None else u.modname.split('.', 1)[-1], '%s:%s' % (kind, pat[:40]),
                     'the regular expression %r backtracks exponentially: %s' % (pat[:100] + ('...' if len(pat) > 100 else ''), why),
                     loc(u, node), witness=attack)
    rep.extra['regexes_not_decided'] = undecided
    rep.floor(rule, n, 15)


def rule_sibling_rx(ctx, rep):
    model = ctx.model
    rep.rule('R-SIBLING-RX', 'L_match(List.pattern) is included in L_match(ListItem.pattern)')
    it = Interp(model)
    a = it.class_attr(model.cls('block_token.List'), 'pattern')
    b = it.class_attr(model.cls('block_token.ListItem'), 'pattern')
    if not isinstance(a, RxVal) or not isinstance(b, RxVal):
        raise AnalysisError('List.pattern / ListItem.pattern are not regex literals')
    rep.instance('R-SIBLING-RX')
    A = rx.ALPHABET_FULL
    La = rx.Lang(a.pattern, a.flags, mode='match', alphabet=A)
    Lb = rx.Lang(b.pattern, b.flags, mode='match', alphabet=A)
    w = rx.witness([La, rx.line_lang(A)], [Lb], A)
    ok = w is None
    rep.obligation('R-SIBLING-RX', ok, {'List.pattern': a.pattern, 'ListItem.pattern': b.pattern, 'witness': w})
    if not ok:
        rep.find('R-SIBLING-RX', 'block_token.List.pattern', 'not-included-in-ListItem.pattern',
                 'the line %r starts a List (List.pattern matches) but ListItem.parse_marker rejects it: ListItem.read unpacks None '
                 'and raises TypeError' % w, loc(model.unit_of(model.cls('block_token.List')), model.cls('block_token.List').node),
                 witness=w)
    return ok


def rule_ctor_total(ctx, rep, facts, sibling_ok):
    model = ctx.model
    rep.rule('R-CTOR-TOTAL', 'no raising path in the start->read->construct protocol of any token class (audited cases excepted)')
    audit = load_audit('c01')
    by_key = {}
    for cls, stage, raised, trace in facts.errors:
        k = 'C01/R-CTOR-TOTAL/%s/%s:%s' % (cls.short, stage, raised.exc.kind)
        by_key.setdefault(k, []).append((cls, stage, raised))
    n_cls = 0
    for short, npaths in sorted(facts.paths.items()):
        n_cls += 1
        rep.instance('R-CTOR-TOTAL')
        mine = {k: v for k, v in by_key.items() if v[0][0].short == short}
        ok_all = True
        for k, v in mine.items():
            cls, stage, raised = v[0]
            entry = audit.get(k)
            ok = entry is not None and (entry.get('backing') != 'R-SIBLING-RX' or sibling_ok)
            ok_all = ok_all and ok
            if entry is not None:
                rep.audit_used.append({'key': k, 'reason': entry['reason'], 'backing': entry.get('backing')})
            if not ok:
                rep.find('R-CTOR-TOTAL', cls.short, '%s:%s' % (stage, raised.exc.kind),
                         'the %s stage of %s has a path that raises %s %s' % (stage, cls.short, raised.exc.kind, raised.exc.args),
                         loc(model.unit_of(cls), cls.node))
        rep.obligation('R-CTOR-TOTAL', ok_all, {'class': short, 'paths': npaths, 'raising_paths': sum(len(v) for v in mine.values())})
    rep.floor('R-CTOR-TOTAL', n_cls, 25)
    rep.extra['protocol_paths'] = facts.paths


# --------------------------------------------------------------------------- R-PROGRESS

def rule_progress(ctx, rep, facts):
    """The dispatch loop of tokenize_block terminates only if every read() that returns a result has
    consumed at least one line net of its back-steps, and a read() that returns None has restored the
    cursor. Decided on every path of the simulated protocol (cursor is concrete there)."""
    model = ctx.model
    rep.rule('R-PROGRESS', 'every read(): result => net consumption of >= 1 line; None => cursor restored')
    audit = load_audit('c01')
    by_cls = {}
    for q, is_none, cur, trace in facts.progress:
        by_cls.setdefault(q, []).append((is_none, cur, trace))
    n = 0
    undecided = []
    for q, items in sorted(by_cls.items()):
        cls = model.classes[q]
        rep.instance('R-PROGRESS')
        bad = None
        for is_none, cur, trace in items:
            n += 1
            if cur is None:
                continue
            if is_none and cur != -1:
                k = 'C01/R-PROGRESS/%s/none-without-restore' % cls.lookup('read')[1].short
                if k in audit:
                    if k not in [u['key'] for u in rep.audit_used]:
                        rep.audit_used.append({'key': k, 'reason': audit[k]['reason']})
                    continue
                bad = ('returns None but leaves the cursor at line %d' % (cur + 1), trace)
            if not is_none and cur < 0:
                bad = ('returns a result after net consumption of %d lines' % (cur + 1), trace)
        witness = None
        if bad is not None and bad[0].startswith('returns a result'):
            # the abstract path may combine decisions of start() and read() about the same line that no line satisfies
            # together (two spellings of one test): the failure is reported when a line realises it
            witness = _stuck_line(ctx, cls)
            if witness is None:
                undecided.append({'class': cls.short, 'path': [str(x) for x in bad[1][:6]]})
                bad = None
        rep.obligation('R-PROGRESS', bad is None, {'class': cls.short, 'paths': len(items)})
        if bad is not None:
            rd = cls.lookup('read')[1]
            rep.find('R-PROGRESS', rd.short, 'net-consumption', '%s %s (decisions: %s)%s: the dispatch loop of tokenize_block '
                     'sees the same line again and never terminates'
                     % (rd.short, bad[0], bad[1][:6], (' - for instance on the line %r' % witness) if witness else ''),
                     loc(model.unit_of(rd), rd.node), witness=witness)
    rep.extra['progress_paths_not_realised'] = undecided
    rep.floor('R-PROGRESS', n, 100)


def _stuck_line(ctx, cls):
    """A line on which cls.start() accepts and cls.read() returns a result without consuming anything: candidates are
    the shortest members of every alternative of the regular expressions the class applies and the string constants
    its start() tests for, each as a line; start() and read() are folded on them."""
    model = ctx.model
    fw = model.cls('block_tokenizer.FileWrapper')
    cands = []
    st = cls.lookup('start')
    consts = set()
    if st is not None and st[0] == 'method':
        for n_ in ast.walk(st[1].node):
            if isinstance(n_, ast.Constant) and isinstance(n_.value, str) and 0 < len(n_.value) <= 10:
                consts.add(n_.value)
    it0 = Interp(model)
    for c in cls.mro():
        if not isinstance(c, ClassInfo):
            continue
        for name in list(c.attrs):
            try:
                v = it0.class_attr(cls, name)
            except Exception:
                continue
            if isinstance(v, RxVal):
                try:
                    for br in [v.pattern]:
                        w = rx.witness([rx.Lang(br, v.flags, mode='match', alphabet=rx.ALPHABET_CORE), rx.line_lang(rx.ALPHABET_CORE)],
                                       [], rx.ALPHABET_CORE)
                        if w is not None:
                            cands.append(w)
                except Exception:
                    pass
    for c_ in sorted(consts):
        for tail in ('x\n', '\n'):
            cands += [c_ + tail, ' ' + c_ + tail, c_.replace('    ', '\t') + tail]
    active = blockproto.default_block_types(ctx)
    for line in dict.fromkeys(cands):
        if not line.endswith('\n'):
            line += '\n'
        it = Interp(model, loop_bound=8, while_bound=8)
        it.reset_run(Oracle())
        it.gstate[(PKG + '.block_token', '_token_types')] = list(active)
        try:
            if not it.truth(it.call(it.getattr(cls, 'start'), [line], {})):
                continue
            w = it.construct(fw, [[line, 'next\n']], {})
            before = it.call(it.getattr(w, 'line_number'), [], {})
            r = it.call(it.getattr(cls, 'read'), [w], {})
            after = it.call(it.getattr(w, 'line_number'), [], {})
            if r is not None and before == after:
                return line
        except Exception:
            continue
    return None


# --------------------------------------------------------------------------- R-RAISE

def entry_points(ctx):
    model = ctx.model
    roots = [model.func('markdown'), model.cls('block_token.Document').methods['__init__']]
    for cfg in ctx.configs():
        for name in ('render', '__init__', '__enter__', '__exit__'):
            hit = cfg.cls.lookup(name)
            if hit is not None and hit[0] == 'method' and hit[1] not in roots:
                roots.append(hit[1])
        for f in cfg.render_map.values():
            if isinstance(f, FuncInfo) and f not in roots:
                roots.append(f)
    return roots


def _owner(short):
    """Class (for methods and functions nested in them) or module (for plain functions) that owns a function."""
    parts = short.split('.<locals>.')[0].split('.')
    for i, p_ in enumerate(parts):
        if p_[:1].isupper():
            return '.'.join(parts[:i + 1])
    return '.'.join(parts[:-1])


def rule_raise(ctx, rep):
    model = ctx.model
    cg = ctx.callgraph()
    rep.rule('R-RAISE', 'reachable raise statements are exactly the audited set')
    audit = load_audit('c01')
    roots = entry_points(ctx)
    reach = cg.reachable(roots)
    n = 0
    owner_level = {}
    for k_, e_ in audit.items():
        parts = k_.split('/')
        if len(parts) == 4 and parts[1] == 'R-RAISE':
            owner_level.setdefault((_owner(parts[2]), parts[3]), e_)
    for q in sorted(reach):
        fi = model.functions.get(q)
        if fi is None:
            continue
        for node in walk_function(fi.node):
            if isinstance(node, ast.Raise):
                n += 1
                rep.instance('R-RAISE')
                what = ast.unparse(node.exc).split('(')[0] if node.exc is not None else 'reraise'
                k = 'C01/R-RAISE/%s/%s' % (fi.short, what)
                entry = audit.get(k)
                if entry is None:
                    # the reviewed refusal may have moved into a helper of the same class / module
                    entry = owner_level.get((_owner(fi.short), what))
                if entry is None and fi.cls is not None:
                    # ... or the class itself was moved to another module of the package (and re-exported where it was)
                    for (own, wh), e_ in owner_level.items():
                        if wh == what and own.split('.')[-1] == fi.cls.name and model.has_cls(own) and model.cls(own) is fi.cls:
                            entry = e_
                if entry is None:
                    # ... or into a module-level helper that only functions of the reviewed owner call
                    owners, seen_, todo = set(), {fi.qualname}, [fi]
                    while todo:
                        cur = todo.pop()
                        for c, outs in cg.edges.items():
                            if cur.qualname in outs and c in model.functions and c not in seen_:
                                seen_.add(c)
                                cf = model.functions[c]
                                if cf.cls is None and cf.parent is None and cf.modname == fi.modname:
                                    todo.append(cf)      # another plain helper of the module: look at its callers
                                else:
                                    owners.add(_owner(cf.short) if cf.modname == fi.modname else cf.short)
                    if len(owners) == 1:
                        entry = owner_level.get((owners.pop(), what))
                ok = entry is not None
                if ok:
                    rep.audit_used.append({'key': k, 'reason': entry['reason']})
                rep.obligation('R-RAISE', ok, {'function': fi.short, 'raises': what, 'audited': ok})
                if not ok:
                    p = cg.path(roots, fi)
                    rep.find('R-RAISE', fi.short, what, 'a raise %s is reachable from the parse/render entry points (%s) and is not '
                             'one of the documented refusals' % (what, ' -> '.join(p[-4:]) if p else fi.short),
                             loc(model.unit_of(fi), node))
    rep.floor('R-RAISE', n, 4)
    rep.extra['reachable_functions'] = len(reach)


def rule_charref_total(ctx, rep):
    """Resolving character references never raises: the inline tokenizer and the destination / title resolver, folded
    on the table of sa/charref.py (which has a row for every kind of reference, the ones that name no code point -
    out of range, surrogates, U+0000 - included), return a text on every row."""
    from .. import charref
    model = ctx.model
    rule = 'R-CHARREF-TOTAL'
    rep.rule(rule, 'resolving a character reference never raises (table of reference kinds, code points that do not exist included)')
    tk_ = model.func('span_tokenizer.tokenize')
    targets = [('span_tokenizer.tokenize', lambda t: charref.fold(model, tk_, [t, [charref.Recorder()]]))]
    if model.has_func('span_token.EscapeSequence.strip') or 'strip' in model.cls('span_token.EscapeSequence').methods:
        es = model.cls('span_token.EscapeSequence')
        st = es.methods.get('strip')
        if st is not None:
            targets.append((st.short, lambda t: charref.fold(model, st, [es, t])))
    n = 0
    for where, f in targets:
        rep.instance(rule)
        bad = []
        for text, want in charref.TABLE:
            got = f(text)
            n += 1
            if isinstance(got, str) and got.startswith('raises '):
                bad.append((text, got))
        rep.obligation(rule, not bad, {'function': where, 'rows': len(charref.TABLE), 'raising': [b[0] for b in bad]})
        if bad:
            fi = model.func(where) if model.has_func(where) else tk_
            rep.find(rule, where, 'raises:%s' % bad[0][1].split()[-1],
                     '%s %s on the text %r (%d of %d rows of the character reference table raise)'
                     % (where, bad[0][1], bad[0][0], len(bad), len(charref.TABLE)), loc(model.unit_of(fi), fi.node), witness=bad[0][0])
    rep.floor(rule, n, 20)


def run(ctx):
    rep = ctx.report
    facts = get_facts(ctx)
    rule_map(ctx, rep, facts)
    rule_render_total(ctx, rep, facts)
    sib = rule_sibling_rx(ctx, rep)
    rule_rx_backtrack(ctx, rep)
    rule_ctor_total(ctx, rep, facts, sib)
    rule_progress(ctx, rep, facts)
    rule_raise(ctx, rep)
    rule_charref_total(ctx, rep)
    # "Delimiter.remove / index bookkeeping after a match": the delimiter stack surgery, on bounded stacks (C06's simulation)
    from . import c06
    c06.rule_stack_sim(ctx, rep, only_raises=True)
    # the definition reader on the table of the definition grammar: no row raises, and every match it hands to the
    # constructors of either token set has the same number of fields (shared with C07)
    from . import c07
    c07.rule_def_rows(ctx, rep, rule='R-DEF-TOTAL')
    from . import c01_lint
    c01_lint.rule_idx(ctx, rep)
    c01_lint.rule_loop(ctx, rep)
    rep.assume('lines handed to start/read end in a newline (C15 R-NORMAL-FORM and suffix-preserving slices)')
    rep.assume('abstract children: a container token has zero or more children, each rendered by the methods analysed here')
