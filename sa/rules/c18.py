"""
C18 - HTML-based contrib renderers conservatively extend the HTML renderer.

Decided statically (class-hierarchy analysis):
  R-MRO         every name that HtmlRenderer resolves (render methods, helpers, render, __exit__, class
                attributes) resolves to the same definition in TocRenderer, GithubWikiRenderer,
                PygmentsRenderer and MathJaxRenderer, except the allowed extension overrides.
  R-RENDER-MAP  the statically evaluated render_map of each subclass equals HtmlRenderer's on all of
                HtmlRenderer's keys (same option valuation), except the allowed overrides.
  R-FORWARD     an allowed override that the side condition does not disable returns the super()
                result unmodified (MathJax: super() + a constant), passes the same token on, and leaves
                the state HtmlRenderer reads untouched.
  R-OPTIONS     after construction with the same options, every instance attribute that HtmlRenderer's
                methods read has the value HtmlRenderer's own constructor gives it.
  R-EXT-TOKENS  apart from extension tokens the active token lists equal HtmlRenderer's (same order);
                each extension token's pattern can only match text containing the side-condition
                characters (mandatory literals / language inclusion).
"""

import ast
import re

from .. import rx, templates as T
from ..interp import LoopTruncated
from ..interp import (AbstractValue, Interp, Oracle, Obj, Unknown, enumerate_paths, Raised, RxVal,
                      is_abstract, BoundMethod)
from ..domains import AbsInt
from ..model import AnalysisError, ClassInfo, FuncInfo, ValueRef, loc, walk_function

EXPLANATION = (
    "Static class-hierarchy analysis: the C3 linearisation of each contrib renderer is computed from "
    "the source and every attribute name HtmlRenderer resolves is looked up through it; any "
    "resolution that differs from HtmlRenderer's own must be one of the allowed extension "
    "overrides. The constructors are interpreted abstractly for every valuation of the boolean "
    "options to compare the resulting render_map, token lists and the instance attributes that "
    "HtmlRenderer's methods read. Allowed overrides that the side condition leaves active are "
    "interpreted with the super() method replaced by a sentinel to show that they return it "
    "unmodified. Extension tokens must carry the side-condition characters as mandatory literals "
    "of their pattern. Pygments' own output on code blocks is excluded by the property.")

BASE = 'html_renderer.HtmlRenderer'
SUBS = {
    'contrib.toc_renderer.TocRenderer': {'label': 'TocRenderer', 'overrides': {'render_heading'}, 'forward': {'render_heading': None},
                                         'ext': {}},
    'contrib.github_wiki.GithubWikiRenderer': {'label': 'GithubWikiRenderer', 'overrides': set(), 'forward': {},
                                               'ext': {'GithubWiki': {'chars': '[|]', 'seq': r'.*\[\[.*\|.*\]\].*'}}},
    'contrib.pygments_renderer.PygmentsRenderer': {'label': 'PygmentsRenderer', 'overrides': {'render_block_code'}, 'forward': {},
                                                   'ext': {}},
    'contrib.mathjax.MathJaxRenderer': {'label': 'MathJaxRenderer', 'overrides': {'render_document'},
                                        'forward': {'render_document': 'const-suffix'},
                                        'ext': {'Math': {'chars': '$', 'seq': None}}},
}
ALWAYS_ALLOWED = {'__init__', '__doc__', '__module__', '__qualname__'}


def base_names(base):
    names = {}
    for c in reversed([c for c in base.mro() if isinstance(c, ClassInfo)]):
        for n in c.methods:
            names[n] = True
        for n in c.attrs:
            names[n] = True
    return sorted(names)


def self_reads(base):
    """Instance attributes read through `self.` by the methods HtmlRenderer resolves."""
    out = set()
    for c in base.mro():
        if not isinstance(c, ClassInfo):
            continue
        for m in c.methods.values():
            if not m.params() or m.kind not in ('method', 'property'):
                continue
            s = m.params()[0]
            for n in walk_function(m.node):
                if isinstance(n, ast.Attribute) and isinstance(n.value, ast.Name) and n.value.id == s \
                        and isinstance(n.ctx, ast.Load):
                    if base.lookup(n.attr) is None or base.lookup(n.attr)[0] == 'attr':
                        out.add(n.attr)
    return out


def mandatory_chars(sub):
    """Characters that occur in every string matched by the parsed (sub)pattern."""
    C = rx.C
    out = set()
    for op, av in sub:
        if op == C.LITERAL:
            out.add(chr(av))
        elif op == C.IN:
            lits = [x for x in av if x[0] == C.LITERAL]
            if len(av) == 1 and lits:
                out.add(chr(lits[0][1]))
        elif op == C.SUBPATTERN:
            out |= mandatory_chars(av[3])
        elif op == C.BRANCH:
            sets = [mandatory_chars(b) for b in av[1]]
            out |= set.intersection(*sets) if sets else set()
        elif op in (C.MAX_REPEAT, C.MIN_REPEAT, getattr(C, 'POSSESSIVE_REPEAT', 'x')):
            if av[0] >= 1:
                out |= mandatory_chars(av[2])
    return out


class SuperResult(T.Markup):
    def __init__(self, func, args):
        T.Markup.__init__(self, what='super().' + func.name)
        self.func = func
        self.args = args

    def __repr__(self):
        return 'SuperResult(%s)' % self.func.name

    def abs_method(self, interp, name, args, kwargs):
        return Unknown('super-result.%s()' % name)

    def abs_getitem(self, interp, idx):
        return Unknown('super-result[...]')


class OpaqueTok(AbstractValue):
    def __init__(self):
        self.prov = ('tok',)
        self._c = {}

    def abs_getattr(self, interp, name):
        if name not in self._c:
            self._c[name] = AbsInt('token.' + name) if name == 'level' else T.Taint('token.' + name)
        return self._c[name]

    def abs_is(self, interp, other):
        return False if other is None else self is other


def run(ctx):
    rep = ctx.report
    model = ctx.model
    rep.rule('R-MRO', 'every name HtmlRenderer resolves resolves identically in the subclass, except allowed overrides')
    rep.rule('R-RENDER-MAP', 'evaluated render_map equals HtmlRenderer\'s on its keys, except allowed overrides')
    rep.rule('R-FORWARD', 'active overrides return the super() result unmodified and pass the same token on')
    rep.rule('R-OPTIONS', 'instance attributes read by HtmlRenderer methods equal those HtmlRenderer() sets')
    rep.rule('R-EXT-TOKENS', 'token lists equal HtmlRenderer\'s apart from extension tokens carrying the side-condition characters')
    base = model.cls(BASE)
    names = base_names(base)
    reads = self_reads(base)
    cfgs = ctx.configs()
    base_cfgs = [c for c in cfgs if c.label == 'HtmlRenderer']
    n_res = 0
    for short, spec in SUBS.items():
        sub = model.cls(short)
        unit = model.unit_of(sub)
        if not sub.is_subclass_of(base):
            raise AnalysisError('%s is no longer a subclass of HtmlRenderer' % short)
        rep.instance('R-MRO')
        mro_txt = [getattr(c, 'short', str(c)) for c in sub.mro()]
        for n in names:
            want = base.lookup(n)
            got = sub.lookup(n)
            same = got is not None and want is not None and got[0] == want[0] and got[2] is want[2]
            allowed = n in ALWAYS_ALLOWED or n in spec['overrides']
            ok = same or allowed
            n_res += 1
            rep.obligation('R-MRO', ok, {'class': sub.name, 'name': n, 'resolves_to': got[2].short if got else None,
                                         'HtmlRenderer_resolves_to': want[2].short if want else None})
            if not ok:
                rep.find('R-MRO', sub.short, n,
                         '%s.%s resolves to %s but HtmlRenderer uses %s (MRO: %s): outside its extension the renderer '
                         'no longer behaves like HtmlRenderer' % (sub.name, n, got[2].short if got else None,
                                                                  want[2].short if want else None, ' -> '.join(mro_txt)),
                         loc(unit, sub.node))
        # evaluated configurations
        for scfg in [c for c in cfgs if c.label == spec['label']]:
            if scfg.error is not None:
                rep.find('R-OPTIONS', sub.short, 'constructor(%s)' % scfg.options,
                         '%s(%s) raises %r' % (sub.name, scfg.options, scfg.error.exc), loc(unit, sub.node))
                continue
            bmatch = [b for b in base_cfgs if all(b.valuation.get(k) == v for k, v in scfg.valuation.items() if k in b.valuation)]
            if not bmatch:
                continue
            bcfg = bmatch[0]
            rep.instance('R-RENDER-MAP')
            for k, bf in bcfg.render_map.items():
                sf = scfg.render_map.get(k)
                allowed = isinstance(bf, FuncInfo) and bf.name in spec['overrides']
                ok = sf is bf or allowed
                rep.obligation('R-RENDER-MAP', ok, {'class': sub.name, 'config': scfg.key(), 'key': k,
                                                    'method': getattr(sf, 'short', sf)})
                if not ok:
                    rep.find('R-RENDER-MAP', sub.short, 'render_map[%s]' % k,
                             '%s routes %s to %s, HtmlRenderer routes it to %s' % (scfg.key(), k, getattr(sf, 'short', sf),
                                                                               getattr(bf, 'short', bf)), loc(unit, sub.node))
            # R-OPTIONS
            rep.instance('R-OPTIONS')
            for a in sorted(reads):
                if a == 'render_map':
                    continue
                bv, sv = bcfg.attrs.get(a, '<unset>'), scfg.attrs.get(a, '<unset>')
                ok = _same_value(bv, sv)
                rep.obligation('R-OPTIONS', ok, {'class': sub.name, 'config': scfg.key(), 'attr': a, 'value': repr(sv)[:40]})
                if not ok:
                    rep.find('R-OPTIONS', sub.short + '.__init__', 'self.%s' % a,
                             'after %s, self.%s is %r where HtmlRenderer sets %r: HtmlRenderer\'s methods read it'
                             % (scfg.key(), a, sv, bv), loc(unit, sub.node))
            # R-EXT-TOKENS
            rep.instance('R-EXT-TOKENS')
            for kind, bl, sl in (('block', bcfg.block_types, scfg.block_types), ('span', bcfg.span_types, scfg.span_types)):
                extra = [c for c in sl if c not in bl]
                rest = [c for c in sl if c in bl]
                ok = rest == list(bl)
                rep.obligation('R-EXT-TOKENS', ok, {'class': sub.name, 'config': scfg.key(), 'list': kind,
                                                   'extension_tokens': [c.name for c in extra]})
                if not ok:
                    rep.find('R-EXT-TOKENS', sub.short + '.__init__', '%s-token-list' % kind,
                             'apart from extension tokens the %s token list of %s is %s, HtmlRenderer has %s'
                             % (kind, scfg.key(), [c.name for c in rest], [c.name for c in bl]), loc(unit, sub.node))
                for c in extra:
                    cond = spec['ext'].get(c.name)
                    if cond is None:
                        rep.obligation('R-EXT-TOKENS', False, {'class': sub.name, 'token': c.name})
                        rep.find('R-EXT-TOKENS', sub.short + '.__init__', 'extra-token:%s' % c.name,
                                 '%s activates token %s, which is not part of its documented extension' % (sub.name, c.name),
                                 loc(unit, sub.node))
                        continue
                    it = Interp(model)
                    pat = it.class_attr(c, 'pattern')
                    if not isinstance(pat, RxVal):
                        raise AnalysisError('%s.pattern is not a regex literal' % c.short)
                    mand = mandatory_chars(rx.parse(pat.pattern, pat.flags))
                    ok = set(cond['chars']) <= mand
                    detail = {'token': c.name, 'pattern': pat.pattern, 'mandatory_chars': sorted(mand),
                              'side_condition_chars': cond['chars']}
                    if ok and cond['seq']:
                        try:
                            A = rx.ALPHABET_CORE
                            L = rx.Lang(pat.pattern, pat.flags, mode='full', alphabet=A)
                            S = rx.Lang(cond['seq'], re.DOTALL, mode='full', alphabet=A)
                            w = rx.witness([L], [S], A)
                            detail['inclusion_witness'] = w
                            ok = w is None
                        except rx.RxUnsupported as e:
                            detail['inclusion'] = 'not decided (%s)' % e
                    rep.obligation('R-EXT-TOKENS', ok, detail)
                    if not ok:
                        rep.find('R-EXT-TOKENS', c.short + '.pattern', 'side-condition',
                                 'extension token %s can match text that does not contain %r (mandatory literals of its '
                                 'pattern: %s): documents that do not use the extension are affected'
                                 % (c.name, cond['chars'], sorted(mand)), loc(model.unit_of(c), c.node))
        # R-FORWARD
        for mname, mode in spec['forward'].items():
            if mname not in sub.methods:
                continue
            func = sub.methods[mname]
            target = sub.lookup_after(sub, mname)
            if target is None:
                raise AnalysisError('%s.%s has nothing to forward to' % (sub.name, mname))
            tfunc = target[1]
            rep.instance('R-FORWARD')
            for scfg in [c for c in cfgs if c.label == spec['label']]:
                if scfg.error is not None:
                    continue

                def runner(oracle, scfg=scfg, func=func, tfunc=tfunc):
                    it = Interp(model, loop_bound=1, while_bound=3)
                    it.reset_run(oracle)
                    T.install_string_hooks(it)
                    T.install_render_hooks(model, it)
                    calls = []
                    it.func_hooks[tfunc.qualname] = lambda interp, fi, args, kwargs: calls.append(args) or SuperResult(fi, args)
                    r = T.clone_obj(scfg.obj)
                    tok = OpaqueTok()
                    try:
                        v = it.call_function(func, [r, tok], {})
                    except Raised as e:
                        return ('raise', e, calls, tok, r)
                    except LoopTruncated:
                        return ('trunc', None, calls, tok, r)
                    return ('ret', v, calls, tok, r)
                for trace, (kind, v, calls, tok, r) in enumerate_paths(runner, 400):
                    if kind == 'trunc':
                        continue        # a scanner loop over the rendered text, cut at the unrolling bound
                    if kind == 'raise':
                        ok, why = False, 'raises %s' % v.exc.kind
                    else:
                        ok, why = _forwarded(v, mode)
                        if ok and not (len(calls) == 1 and calls[0][1] is tok and len(calls[0]) == 2):
                            ok, why = False, 'super().%s is not called exactly once with the same token' % mname
                        if ok:
                            for a in reads - {'render_map'}:
                                if not _same_value(scfg.obj.attrs.get(a, '<unset>'), r.attrs.get(a, '<unset>')):
                                    ok, why = False, 'changes self.%s, which HtmlRenderer reads' % a
                    rep.obligation('R-FORWARD', ok, {'override': func.short, 'config': scfg.key(), 'returns': repr(v)[:60]})
                    if not ok:
                        rep.find('R-FORWARD', func.short, 'forward',
                                 '%s does not forward to %s unchanged: %s' % (func.short, tfunc.short, why),
                                 loc(model.unit_of(func), func.node))
    rep.extra['names_resolved_per_class'] = len(names)
    rep.extra['self_attributes_read_by_HtmlRenderer'] = sorted(reads)
    rep.floor('R-MRO', n_res, 4 * 30)
    rep.assume('side conditions per the property: Toc and Pygments add no tokens; GithubWiki needs [[..|..]]; MathJax needs $')
    rep.assume('PygmentsRenderer.render_block_code is only reached for code blocks (excluded by the side condition)')


def _same_value(a, b):
    if a is b:
        return True
    if isinstance(a, list) and isinstance(b, list):
        return list(a) == list(b)       # a deque is modelled as a list subclass: its copy may be a plain list
    if isinstance(a, (list, tuple, dict, str, int, bool, type(None))) and type(a) is type(b):
        return a == b
    return False


def _forwarded(v, mode):
    if isinstance(v, SuperResult):
        return True, ''
    if isinstance(v, T.Skel):
        parts = v.parts
        if len(parts) == 1 and isinstance(parts[0], T.Hole) and isinstance(parts[0].value, SuperResult):
            return True, ''
        if mode == 'const-suffix' and len(parts) == 2 and isinstance(parts[0], T.Hole) \
                and isinstance(parts[0].value, SuperResult) and isinstance(parts[1], str):
            return True, ''
    return False, 'returns %r' % (v,)
