"""
C04 - quoting or list-indenting any document wraps its parse unchanged.

Decided statically: only the necessary condition that a container's content is tokenized by the same
parser configuration as the top level.
  R-NEST-SAME   in every reader that re-tokenizes a buffer (Quote.read, ListItem.read) the nested call is
                tokenize_block(<buffer>, <the active token list itself>, ...), and on every path no parser
                configuration state written by the reader is in force while the nested call runs.
  R-NEST-PHASE  the nested tokenization happens in read() (block phase), not in a constructor (with C07).
"""

import ast

from .. import blockproto
from ..domains import AbsStr
from ..interp import Interp
from ..interp import Oracle, Obj, Unknown, enumerate_paths, Raised, LoopTruncated, PathLimit, MISSING
from ..model import AnalysisError, ClassInfo, ValueRef, loc, PKG
from .. import tokens as tk
from . import c13, c11

EXPLANATION = (
    "Typestate over the global-state inventory: Quote.read and ListItem.read are interpreted abstractly "
    "over abstract lines with the nested tokenize_block call replaced by a recorder; on every "
    "enumerated path the recorder checks that the token list argument is the active module-level "
    "list itself and snapshots the class-level and module-level state the reader has written and "
    "not restored; any non-scratch state in force during the nested call means the content is parsed "
    "under a different configuration than the same text at top level. Correctness of marker stripping, "
    "prepend arithmetic and laziness is not decided.")


def run(ctx):
    rep = ctx.report
    model = ctx.model
    rep.rule('R-NEST-SAME', 'nested tokenize_block gets the active token list itself and runs under unmodified parser configuration')
    rep.rule('R-NEST-PHASE', 'containers tokenize their content in read(), not in a constructor')
    fw = model.cls('block_tokenizer.FileWrapper')
    tb = model.func('block_tokenizer.tokenize_block')
    scratch = {l for l, (d, _) in c11.CLASSIFICATION.items() if d == 'D-SCRATCH'}
    readers = []
    for cls in blockproto.block_classes(model, ctx.configs()) + [model.cls('block_token.ListItem')]:
        hit = cls.lookup('read')
        if hit is not None and 'tokenize_block' in ast.unparse(hit[1].node) and cls not in readers:
            readers.append(cls)
    if len(readers) < 2:
        raise AnalysisError('fewer than two readers re-tokenize a buffer: %s' % [c.short for c in readers])
    n_calls = 0
    for cls in readers:
        rd = cls.lookup('read')[1]
        unit = model.unit_of(rd)
        rep.instance('R-NEST-SAME')
        seen = set()

        def run_(oracle, cls=cls):
            it = Interp(model, loop_bound=1, while_bound=4)
            it.reset_run(oracle)
            nested = []
            c13.install(model, it, nested)
            active = [c for c in [cfg for cfg in ctx.configs() if cfg.label == 'HtmlRenderer' and not cfg.options][0].block_types]
            it.gstate[(PKG + '.block_token', '_token_types')] = active
            snaps = []

            def h(interp, fi, args, kwargs):
                live = {}
                for (cq, attr), v in interp.cstate.items():
                    c = model.classes.get(cq)
                    default = MISSING
                    if c is not None and attr in c.attrs:
                        try:
                            default = Interp(model).fold_value(ValueRef(c.modname, attr, c.attrs[attr], owner=c))
                        except Exception:
                            default = MISSING
                    if default is MISSING or default is not v and default != v:
                        live['class:%s.%s' % (c.short if c else cq, attr)] = v
                for (m, name), v in interp.gstate.items():
                    if (m, name) == (PKG + '.block_token', '_token_types'):
                        continue
                    live['module:%s.%s' % (m, name)] = v
                snaps.append((list(args), dict(kwargs), live, args[1] is active if len(args) > 1 else False))
                return tk.BlockBuffer(list(args), dict(kwargs))
            it.func_hooks[tb.qualname] = h
            lines = [AbsStr(label='line%d' % i) for i in range(3)]
            w = it.construct(fw, [lines], {})
            try:
                it.call(it.getattr(cls, 'read'), [w], {})
            except (Raised, LoopTruncated):
                pass
            return snaps
        try:
            for trace, snaps in enumerate_paths(run_, 3000):
                for args, kwargs, live, same_list in snaps:
                    n_calls += 1
                    if not same_list:
                        k = 'token-list-argument'
                        if k not in seen:
                            seen.add(k)
                            rep.obligation('R-NEST-SAME', False, {'reader': rd.short, 'token_types_arg': repr(args[1])[:80] if len(args) > 1 else None})
                            rep.find('R-NEST-SAME', rd.short, k, '%s tokenizes its content with a token list that is not the active '
                                     'module-level list itself' % rd.short, loc(unit, rd.node))
                    bad = {l: v for l, v in live.items() if l not in scratch}
                    for l, v in sorted(bad.items()):
                        k = l.split(':', 1)[1].replace('block_token.', '')
                        if k not in seen:
                            seen.add(k)
                            rep.obligation('R-NEST-SAME', False, {'reader': rd.short, 'state_in_force': l, 'value': repr(v)})
                            rep.find('R-NEST-SAME', rd.short, k,
                                     'while %s tokenizes its content, %s = %r is in force: the same text parses differently '
                                     'inside this container than at top level' % (rd.short, l, v), loc(unit, rd.node),
                                     witness='> Foo\n> ---')
                    if same_list and not bad:
                        rep.obligation('R-NEST-SAME', True, {'reader': rd.short, 'scratch_state_written': sorted(live)})
        except PathLimit:
            rep.note('%s: path limit reached' % rd.short)
    rep.floor('R-NEST-SAME', n_calls, 10)
    # R-NEST-PHASE (shared with C07 clause c)
    from . import c07
    cg = ctx.callgraph()
    ctors = c07.token_constructors(model)
    reach = cg.reachable(ctors)
    rep.instance('R-NEST-PHASE')
    ok = tb.qualname not in reach
    rep.obligation('R-NEST-PHASE', ok, {'tokenize_block reachable from a token constructor': not ok})
    if not ok:
        p = cg.path(ctors, tb)
        rep.find('R-NEST-PHASE', p[0], 'block-tokenize-in-constructor', 'a token constructor re-enters the block tokenizer: %s'
                 % ' -> '.join(p), '')
    rep.assume('scratch state of the start->read protocol (C05) is not parser configuration')
