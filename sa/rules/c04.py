"""
C04 - quoting or list-indenting any document wraps its parse unchanged.

Decided statically: only the necessary condition that a container's content is tokenized by the same
parser configuration as the top level.
  R-NEST-SAME   in every reader that re-tokenizes a buffer (Quote.read, ListItem.read) the nested call is
                tokenize_block(<buffer>, <the active token list itself>, ...), and on every path no parser
                configuration state written by the reader is in force while the nested call runs.
  R-NEST-PHASE  the nested tokenization happens in read() (block phase), not in a constructor (with C07).
"""

import ast

from .. import blockproto
from ..domains import AbsStr
from ..affine import Aff, LenStr
from ..interp import AbstractValue, Unknown, enumerate_paths
from ..interp import Interp
from ..interp import Oracle, Obj, Unknown, enumerate_paths, Raised, LoopTruncated, PathLimit, MISSING, _MISSING
from ..model import AnalysisError, ClassInfo, ValueRef, loc, PKG
from .. import tokens as tk
from . import c13, c11

EXPLANATION = (
    "Typestate over the global-state inventory: Quote.read and ListItem.read are interpreted abstractly "
    "over abstract lines with the nested tokenize_block call replaced by a recorder; on every "
    "enumerated path the recorder checks that the token list argument is the active module-level "
    "list itself and snapshots the class-level and module-level state the reader has written and "
    "not restored; any non-scratch state in force during the nested call means the content is parsed "
    "under a different configuration than the same text at top level. Correctness of marker stripping, "
    "prepend arithmetic and laziness is not decided.")


def _has_slice(prov):
    if isinstance(prov, tuple):
        if prov and prov[0] == 'idx' and isinstance(prov[1], tuple) and prov[1] and prov[1][0] == 'slice':
            return True
        if prov and prov[0] == 'part':
            return True
        return any(_has_slice(x) for x in prov)
    return False


# The lines a container hands to the nested tokenizer, for one source text of every class of the specification's
# rules for the container's own syntax (CommonMark 0.30, 5.1 block quote marker; 5.2 list item content, blank lines
# and laziness). (reader, source lines, the buffer the nested tokenizer must get, lines left for the caller)
CONTENT_ROWS = [
    # block quote marker: '>' with an optional following space, after 0-3 spaces of indentation
    ('Quote', ['> a\n'], ['a\n'], 0), ('Quote', ['>a\n'], ['a\n'], 0), ('Quote', ['>  a\n'], [' a\n'], 0),
    ('Quote', ['   > a\n'], ['a\n'], 0), ('Quote', ['>\n'], ['\n'], 0), ('Quote', ['> \n'], ['\n'], 0),
    ('Quote', ['> a\n', '> b\n'], ['a\n', 'b\n'], 0), ('Quote', ['> a\n', '>b\n'], ['a\n', 'b\n'], 0),
    ('Quote', ['> a\n', '>\n', '> b\n'], ['a\n', '\n', 'b\n'], 0),         # a bare marker is a blank line of the content
    ('Quote', ['> a\n', '>  b\n'], ['a\n', ' b\n'], 0),
    ('Quote', ['> a\n', 'b\n'], ['a\n', 'b\n'], 0),                          # lazy continuation
    ('Quote', ['> a\n', '\n', '> b\n'], ['a\n'], 2),                         # a blank line ends the quote
    ('Quote', ['>\n', 'b\n'], ['\n'], 1),                                     # no laziness after a blank content line
    # list item content: continuation lines indented to the content column; blank lines belong to the item when
    # indented content follows; an unindented line continues a paragraph lazily, but not after a blank line
    ('ListItem', ['- a\n'], ['a\n'], 0), ('ListItem', ['- a\n', '  b\n'], ['a\n', 'b\n'], 0),
    ('ListItem', ['- a\n', '    b\n'], ['a\n', '  b\n'], 0),
    ('ListItem', ['- a  \n', '  b  \n', '  c\t\n'], ['a  \n', 'b  \n', 'c\t\n'], 0),      # what follows the content is content (hard breaks)
    ('Quote', ['> a  \n', '> b  \n'], ['a  \n', 'b  \n'], 0),
    ('ListItem', ['- a\n', '\n', '  b\n'], ['a\n', '\n', 'b\n'], 0),
    ('ListItem', ['- a\n', '\n', '\n', '  b\n'], ['a\n', '\n', '\n', 'b\n'], 0),
    ('ListItem', ['- a\n', '  \n', '  b\n'], ['a\n', '\n', 'b\n'], 0),
    ('ListItem', ['- a\n', 'b\n'], ['a\n', 'b\n'], 0),
    ('ListItem', ['- a\n', '\n', 'b\n'], ['a\n'], 2),
    ('ListItem', ['- a\n', '\n', '\n', 'b\n'], ['a\n'], (2, 3)),   # at least one blank line is handed back
    ('ListItem', ['1. a\n', '   b\n'], ['a\n', 'b\n'], 0),
    ('ListItem', ['-   a\n', '    b\n'], ['a\n', 'b\n'], 0),
    ('ListItem', ['-\n', '  a\n'], ['a\n'], 0),
    ('ListItem', ['- a\n', '- b\n'], ['a\n'], 1),
    ('ListItem', ['- a\n', '\n', '- b\n'], ['a\n', '\n'], 1),
]


def rule_content_rows(ctx, rep):
    """The container readers, folded on one source text of every class of the specification's rules for markers,
    continuation, blank lines and laziness (CONTENT_ROWS): the buffer handed to the nested tokenizer must be the
    content as the specification defines it, and the lines after it must be left for the caller."""
    model = ctx.model
    rule = 'R-CONTENT-ROWS'
    rep.rule(rule, 'container readers hand the nested tokenizer exactly the content lines the specification defines (table of line classes)')
    fw = model.cls('block_tokenizer.FileWrapper')
    tb = model.func('block_tokenizer.tokenize_block')
    bad = {}
    n = 0
    active_types = blockproto.default_block_types(ctx)
    for cname, lines, want, left in CONTENT_ROWS:
        cls = model.cls('block_token.' + cname)
        rd = cls.lookup('read')[1]
        rep.instance(rule)
        it = Interp(model, loop_bound=16, while_bound=16)
        it.reset_run(Oracle())
        it.gstate[(PKG + '.block_token', '_token_types')] = list(active_types)
        got = []

        def h(interp, fi, args, kwargs, got=got):
            got.append(list(args[0]) if isinstance(args[0], list) else args[0])
            return tk.BlockBuffer(list(args), dict(kwargs))
        it.func_hooks[tb.qualname] = h
        w = it.construct(fw, [list(lines)], {})
        try:
            it.call(it.getattr(cls, 'read'), [w], {})
            consumed = it.call(it.getattr(w, 'line_number'), [], {})
            start = w.attrs.get('start_line', 1)
            remaining = len(lines) - (consumed - start + 1) if isinstance(consumed, int) and isinstance(start, int) else None
            res = (got[-1] if got else None, remaining)
        except Raised as r:
            res = ('raises %s' % r.exc.kind, None)
        n += 1
        ok = res[0] == want and (res[1] in left if isinstance(left, tuple) else res[1] == left)
        rep.obligation(rule, ok, {'reader': cname, 'source': lines, 'content': res[0], 'left for the caller': res[1],
                                  'specification': [want, left]})
        if not ok:
            bad.setdefault(cname, []).append((lines, res, want, left, rd))
    for cname, rows in sorted(bad.items()):
        lines, res, want, left, rd = rows[0]
        rep.find(rule, rd.short, 'row:%s' % ''.join(lines).replace('\n', '|'),
                 'on the source %r %s hands the nested tokenizer %r and leaves %r line(s) to its caller; the specification\'s '
                 'content is %r with %s line(s) left (%d row(s) of the table differ for this reader)'
                 % (''.join(lines), rd.short, res[0], res[1], want, left, len(rows)),
                 loc(model.unit_of(rd), rd.node), witness=''.join(lines))
    rep.floor(rule, n, 25)


MARKER_LINE = r' {0,3}(?:[-+*]|[0-9]{1,9}[.)])(?: [^\n]*)?\n'


def rule_marker_claim(ctx, rep):
    """A line that begins with a list marker reaches List.start unless CommonMark gives it to a block that is tried
    earlier (the marker / thematic break coincidences "- - -", "* * *"): language of every earlier regex start,
    intersected with the marker lines, is included in the specification's language for that block."""
    from . import c14
    from .. import rx
    from ..spec import blockstart
    model = ctx.model
    rule = 'R-MARKER-CLAIM'
    rep.rule(rule, 'no block start tried before List claims a list-marker line that CommonMark does not give it')
    cfg = [c for c in ctx.configs() if c.label == 'HtmlRenderer' and not c.options][0]
    order = [c.short for c in cfg.block_types]
    if 'block_token.List' not in order:
        raise AnalysisError('anchor vanished: List is not an active block token')
    earlier = set(order[:order.index('block_token.List')])
    A = rx.ALPHABET_CORE
    marker = rx.Lang(MARKER_LINE, mode='full', alphabet=A)
    n = 0
    for cls_short, method, spec_name in c14.TARGETS:
        if cls_short not in earlier or method != 'start':
            continue
        rxv = c14.start_pattern(ctx, cls_short, method)
        rep.instance(rule)
        n += 1
        if rxv is None:
            rep.note('%s.%s does not apply one regex literal to the whole line: which marker lines it claims is not decided' % (cls_short, method))
            continue
        L = rx.Lang(rxv.pattern, rxv.flags, mode='match', alphabet=A)
        S = rx.Lang(blockstart.SPEC[spec_name], mode='full', alphabet=A)
        w = rx.witness([L, marker, rx.line_lang(A)], [S], A)
        rep.obligation(rule, w is None, {'start': cls_short, 'pattern': rxv.pattern, 'witness': w})
        if w is not None:
            cls = model.cls(cls_short)
            rep.find(rule, '%s.%s' % (cls.short, method), 'claims-marker-line',
                     '%s.%s, tried before List.start, accepts the list item line %r, which is not a %s in CommonMark: '
                     'the wrapped text is not parsed as one single-item list' % (cls.short, method, w, spec_name),
                     loc(model.unit_of(cls), cls.lookup(method)[1].node), witness=w)
    rep.floor(rule, n, 2)


INTACT_ROWS = [['- a\n'], ['- [x] a\n'], ['- [ ] a\n', '  b\n'], ['> a\n'], ['> [x] a\n', '> b\n'], ['- a\n', '\n', '  b\n'],
               ['1. # h\n'], ['- > q\n'], ['> - a\n'], ['- \\[x] a\n'], ['> 1. a\n', '>\n', '>    b\n'], ['-     code\n']]


def _snap(v, depth=0):
    """Content of a parse buffer, whatever its layout: nested lists, tuples and strings by value, classes by name,
    other objects by kind."""
    from ..model import ClassInfo
    if isinstance(v, (str, int, bool)) or v is None:
        return v
    if depth > 8:
        return '...'
    if isinstance(v, Obj):
        return (v.cls.name,) + tuple(sorted((k, _snap(x, depth + 1)) for k, x in v.attrs.items()
                                            if isinstance(x, (list, tuple))))      # the blocks, not flags such as loose
    if isinstance(v, (list, tuple)):
        return tuple(_snap(x, depth + 1) for x in v)
    if isinstance(v, ClassInfo):
        return v.name
    return type(v).__name__


def rule_buffer_intact(ctx, rep):
    """The content of a container is what the nested tokenizer made of the content lines: the parse buffer it returns
    reaches make_tokens with the same content (no constructor rewrites the blocks it was given). The block tokenizer
    and make_tokens are folded on INTACT_ROWS; every buffer a nested tokenize_block returned is compared by value with
    the arguments of the nested make_tokens calls."""
    model = ctx.model
    rule = 'R-BUFFER-INTACT'
    rep.rule(rule, 'the buffer a nested tokenize_block returns reaches make_tokens with unchanged content')
    tb = model.func('block_tokenizer.tokenize_block')
    mt = model.func('block_tokenizer.make_tokens')
    active_types = blockproto.default_block_types(ctx)
    bad = []
    n = 0
    for lines in INTACT_ROWS:
        rep.instance(rule)
        it = Interp(model, loop_bound=16, while_bound=16)
        it.reset_run(Oracle())
        it.gstate[(PKG + '.block_token', '_token_types')] = list(active_types)
        returned, made = [], []
        st = {'tb': False, 'mt': False, 'tb_depth': 0, 'mt_depth': 0}

        def h_tb(interp, fi, args, kwargs, st=st, returned=returned):
            if st['tb']:
                st['tb'] = False
                return _MISSING
            st['tb'] = True
            st['tb_depth'] += 1
            try:
                r = interp.call_function(fi, args, kwargs)
            finally:
                st['tb_depth'] -= 1
            if st['tb_depth'] > 0:
                returned.append(_snap(r))
            return r

        def h_mt(interp, fi, args, kwargs, st=st, made=made):
            if st['mt']:
                st['mt'] = False
                return _MISSING
            if st['mt_depth'] > 0:
                made.append(_snap(args[0] if args else None))
            st['mt'] = True
            st['mt_depth'] += 1
            try:
                return interp.call_function(fi, args, kwargs)
            finally:
                st['mt_depth'] -= 1
        it.func_hooks[tb.qualname] = h_tb
        it.func_hooks[mt.qualname] = h_mt
        # inline content is not looked at here
        it.func_hooks[model.func('span_token.tokenize_inner').qualname] = lambda interp, fi, args, kwargs: []
        try:
            pb = it.call_function(tb, [list(lines), list(active_types)], {})
            it.call_function(mt, [pb], {})
            res = None
        except Raised as r:
            res = 'raises %s' % r.exc.kind
        n += 1
        lost = [b for b in returned if b not in made]
        ok = res is None and returned and not lost
        rep.obligation(rule, bool(ok), {'source': lines, 'nested buffers': len(returned), 'buffers given to make_tokens': len(made),
                                        'changed': [repr(b)[:120] for b in lost], 'outcome': res})
        if not ok:
            bad.append((lines, res, lost, made))
    if bad:
        lines, res, lost, made = bad[0]
        rep.find(rule, mt.short, 'row:%s' % ''.join(lines).replace('\n', '|'),
                 'on the source %r %s (%d row(s) differ)'
                 % (''.join(lines), res or ('the nested tokenizer returned %r but no make_tokens call gets a buffer with that '
                                            'content (it gets %r): a constructor rewrites the blocks of its content'
                                            % (lost[0] if lost else None, made[:2])), len(bad)),
                 loc(model.unit_of(mt), mt.node), witness=''.join(lines))
    rep.floor(rule, n, 10)


def rule_strip_provenance(ctx, rep):
    """Marker stripping in the quote reader: every element of the buffer handed to the nested tokenizer is
    either the source line itself (lazy continuation: whitespace preserved) or the source line with its
    marker sliced off; never a constant, never a line that was stripped without a marker."""
    model = ctx.model
    rule = 'R-STRIP-PROVENANCE'
    rep.rule(rule, 'quote buffer elements: the line itself (lazy) or the line with the marker sliced off')
    q = model.cls('block_token.Quote')
    rd = q.lookup('read')[1]
    rep.instance(rule)
    n = 0
    seen = set()
    for trace, (kind, r, nested, w) in c13.explore_reader(model, q):
        bufs = [args[0] for caller, args, kwargs in nested if args]
        if not bufs and kind == 'ret':
            # the reader hands its buffer on in its result instead of tokenizing it itself
            bufs = [x for x in (r if isinstance(r, tuple) else [r]) if isinstance(x, list)]
        for buf in bufs:
            if not isinstance(buf, list):
                continue
            for e in buf:
                n += 1
                if isinstance(e, AbsStr):
                    idx = c13.line_index(e.prov)
                    identity = isinstance(e.prov, tuple) and len(e.prov) == 3 and e.prov[0] == 'src'
                    ok = idx is not None and (identity or _has_slice(e.prov))
                    what = 'derived from line %s without removing a marker (%s)' % (idx, '->'.join(str(x) for x in e.prov[:2]))
                else:
                    ok = False
                    what = 'the constant %r' % (e,)
                if not ok and what not in seen:
                    seen.add(what)
                    rep.obligation(rule, False, {'reader': rd.short, 'element': what})
                    rep.find(rule, rd.short, 'constant-element' if not isinstance(e, AbsStr) else 'stripped-without-marker',
                             'Quote.read hands the nested tokenizer a buffer element that is %s: the quoted text is not '
                             'the original text with its marker removed (whitespace inside code or before lazy '
                             'continuation text is lost)' % what, loc(model.unit_of(rd), rd.node))
    rep.obligation(rule, not seen, {'reader': rd.short, 'buffer_elements_checked': n})
    rep.floor(rule, n, 20)


class LenMatch(AbstractValue):
    """A successful match of the list-marker pattern on a tab-free line, known by the lengths of its parts only.
    The layout is read off the pattern itself: every top-level item of the regex gets a length symbol (capture
    group k: `g<k>`, anything else: `x<j>`), so a pattern that grows a part between the groups is modelled too.
    For the pattern as it is: g1 = indentation I, g2 = marker D, g3 = spaces after the marker N."""

    def __init__(self, pattern=None):
        from .. import rx
        self.layout = []          # [(symbol, group id or None)]
        if pattern is not None:
            tree = rx.parse(pattern)
            j = 0
            for op, av in tree:
                if op == rx.C.SUBPATTERN and av[0] is not None:
                    self.layout.append(('g%d' % av[0], av[0]))
                elif op == rx.C.AT:
                    continue
                else:
                    j += 1
                    self.layout.append(('x%d' % j, None))
        if not self.layout:
            self.layout = [('g1', 1), ('g2', 2), ('g3', 3)]
        self.names = {}
        if pattern is not None:
            import re as _re
            try:
                self.names = dict(_re.compile(pattern).groupindex)
            except _re.error:
                self.names = {}
        self.total = Aff({}, 0)
        self.spans = {}
        for sym, gid in self.layout:
            st = self.total
            self.total = self.total.add(Aff.sym(sym))
            if gid is not None:
                self.spans[gid] = (st, self.total, Aff.sym(sym))
        self.spans[0] = (Aff({}, 0), self.total, self.total)

    def sym(self, gid):
        return self.spans[gid][2]

    def abs_is(self, interp, other):
        return False if other is None else self is other

    def abs_truth(self, interp):
        return True

    def abs_getattr(self, interp, name):
        from ..domains import _AbsBound
        return _AbsBound(self, name)

    def abs_method(self, interp, name, args, kwargs):
        args = [self.names.get(a, a) if isinstance(a, str) else a for a in args]
        g = args[0] if args else 0
        if name == 'groupdict':
            return {k: TabFree(self.spans[i][2], 'group%d' % i) for k, i in self.names.items()}
        if name == 'group':
            if len(args) > 1:
                return tuple(TabFree(self.spans[a][2], 'group%d' % a) for a in args)
            return TabFree(self.spans[g][2], 'group%d' % g)
        if name == 'groups':
            return tuple(TabFree(self.spans[a][2], 'group%d' % a) for a in sorted(k for k in self.spans if k))
        if name == 'span':
            return (self.spans[g][0], self.spans[g][1])
        if name == 'end':
            return self.spans[g][1]
        if name == 'start':
            return self.spans[g][0]
        return Unknown('match.' + name)


class TabFree(LenStr):
    def abs_method(self, interp, name, args, kwargs):
        if name == 'expandtabs':
            return self
        return LenStr.abs_method(self, interp, name, args, kwargs)


def rule_marker_arith(ctx, rep):
    """Content offset of a list item (CommonMark 5.2): with N spaces after the marker, 1 <= N <= 4, the
    content starts at indentation + len(marker) + N; with N >= 5 (indented code follows) at
    indentation + len(marker) + 1. Decided over symbolic group lengths (affine), tab-free lines."""
    model = ctx.model
    rule = 'R-MARKER-ARITH'
    rep.rule(rule, 'ListItem.parse_marker: prepend = I + D + N if N <= 4 else I + D + 1 (affine over group lengths)')
    li = model.cls('block_token.ListItem')
    pm = li.lookup('parse_marker')[1]
    rep.instance(rule)
    outs = []

    pv = Interp(model).class_attr(li, 'pattern')
    ptxt = getattr(pv, 'pattern', None)

    def run_(oracle):
        it = Interp(model)
        it.reset_run(oracle)
        m = LenMatch(ptxt)
        it.intrinsics['rx.match'] = lambda interp, a, k: m
        line = TabFree(Aff.sym('L'), 'line')
        r = it.call(it.getattr(li, 'parse_marker'), [line], {})
        return r, m
    for trace, (r, m) in enumerate_paths(run_, 64):
        conds = [(k, v) for k, v in trace if isinstance(k, tuple) and k and k[0] == 'aff']
        outs.append((r, conds, m))
    problems = []
    lm = LenMatch(ptxt)
    gids = sorted(k for k in lm.spans if k)
    if len(gids) < 3:
        raise AnalysisError('ListItem.pattern has %d capture groups, expected indentation / marker / spaces' % len(gids))
    I, N, W = lm.sym(gids[0]), lm.sym(gids[-1]), lm.total      # indentation, spaces after the marker, whole marker width
    if not outs:
        problems.append('parse_marker has no path for a matching line')
    for r, conds, m in outs:
        if not (isinstance(r, tuple) and len(r) == 4):
            problems.append('returns %r for a matching line' % (r,))
            continue
        ind, prepend, leader, content = r
        # which case is this path? the decision on  N > 4  (normalised: N - 4 > 0)
        big = None
        for k, v in conds:
            if k[1] == 'ge0' and k[2] == repr(N.add(Aff({}, -5))):
                big = v
            else:
                problems.append('branches on %s %s 0, which is not the test "more than 4 spaces after the marker"' % (k[2], k[1]))
        if big is None:
            problems.append('does not distinguish N > 4 spaces after the marker')
            continue
        want = W.add(N, -1).add(Aff({}, 1)) if big else W
        if Aff.lift(ind) is None or Aff.lift(ind) != I:
            problems.append('indentation is %r, not len(group 1)' % (ind,))
        if Aff.lift(prepend) is None or Aff.lift(prepend) != want:
            problems.append('prepend is %r when N %s 4; expected %r (N = %r: spaces after the marker)' % (prepend, '>' if big else '<=', want, N))
    ok = not problems
    rep.obligation(rule, ok, {'paths': len(outs), 'results': [repr(o[0][:2]) for o in outs if isinstance(o[0], tuple)]})
    for p_ in sorted(set(problems)):
        rep.find(rule, pm.short, p_.split(',')[0][:60], 'ListItem.parse_marker %s (I = indentation, D = marker length, N = spaces '
                 'after the marker): the content offset of list items disagrees with CommonMark 5.2' % p_,
                 loc(model.unit_of(pm), pm.node))


def run(ctx):
    rep = ctx.report
    model = ctx.model
    rep.rule('R-NEST-SAME', 'nested tokenize_block gets the active token list itself and runs under unmodified parser configuration')
    rep.rule('R-NEST-PHASE', 'containers tokenize their content in read(), not in a constructor')
    fw = model.cls('block_tokenizer.FileWrapper')
    tb = model.func('block_tokenizer.tokenize_block')
    scratch = {l for l, (d, _) in c11.CLASSIFICATION.items() if d == 'D-SCRATCH'}
    readers = blockproto.container_readers(ctx)
    if len(readers) < 2:
        rep.note('only %d reader(s) re-tokenize a buffer in read(): %s' % (len(readers), [c.short for c in readers]))
    if len(readers) < 1:
        raise AnalysisError('no reader re-tokenizes a buffer: %s' % [c.short for c in readers])
    n_calls = 0
    for cls in readers:
        rd = cls.lookup('read')[1]
        unit = model.unit_of(rd)
        rep.instance('R-NEST-SAME')
        seen = set()

        def run_(oracle, cls=cls):
            it = Interp(model, loop_bound=1, while_bound=4)
            it.reset_run(oracle)
            nested = []
            c13.install(model, it, nested)
            active = [c for c in [cfg for cfg in ctx.configs() if cfg.label == 'HtmlRenderer' and not cfg.options][0].block_types]
            it.gstate[(PKG + '.block_token', '_token_types')] = active
            snaps = []

            def h(interp, fi, args, kwargs):
                live = {}
                for (cq, attr), v in interp.cstate.items():
                    c = model.classes.get(cq)
                    default = MISSING
                    if c is not None and attr in c.attrs:
                        try:
                            default = Interp(model).fold_value(ValueRef(c.modname, attr, c.attrs[attr], owner=c))
                        except Exception:
                            default = MISSING
                    if default is MISSING or default is not v and default != v:
                        live['class:%s.%s' % (c.short if c else cq, attr)] = v
                for (m, name), v in interp.gstate.items():
                    if (m, name) == (PKG + '.block_token', '_token_types'):
                        continue
                    live['module:%s.%s' % (m, name)] = v
                snaps.append((list(args), dict(kwargs), live, args[1] is active if len(args) > 1 else False))
                return tk.BlockBuffer(list(args), dict(kwargs))
            it.func_hooks[tb.qualname] = h
            lines = [AbsStr(label='line%d' % i) for i in range(3)]
            w = it.construct(fw, [lines], {})
            try:
                it.call(it.getattr(cls, 'read'), [w], {})
            except (Raised, LoopTruncated):
                pass
            return snaps
        try:
            for trace, snaps in enumerate_paths(run_, 3000):
                for args, kwargs, live, same_list in snaps:
                    n_calls += 1
                    if not same_list:
                        k = 'token-list-argument'
                        if k not in seen:
                            seen.add(k)
                            rep.obligation('R-NEST-SAME', False, {'reader': rd.short, 'token_types_arg': repr(args[1])[:80] if len(args) > 1 else None})
                            rep.find('R-NEST-SAME', rd.short, k, '%s tokenizes its content with a token list that is not the active '
                                     'module-level list itself' % rd.short, loc(unit, rd.node))
                    bad = {l: v for l, v in live.items() if l not in scratch}
                    for l, v in sorted(bad.items()):
                        k = l.split(':', 1)[1].replace('block_token.', '')
                        if k not in seen:
                            seen.add(k)
                            rep.obligation('R-NEST-SAME', False, {'reader': rd.short, 'state_in_force': l, 'value': repr(v)})
                            rep.find('R-NEST-SAME', rd.short, k,
                                     'while %s tokenizes its content, %s = %r is in force: the same text parses differently '
                                     'inside this container than at top level' % (rd.short, l, v), loc(unit, rd.node),
                                     witness='> Foo\n> ---')
                    if same_list and not bad:
                        rep.obligation('R-NEST-SAME', True, {'reader': rd.short, 'scratch_state_written': sorted(live)})
        except PathLimit:
            rep.note('%s: path limit reached' % rd.short)
    rep.floor('R-NEST-SAME', n_calls, 10)
    rule_strip_provenance(ctx, rep)
    rule_content_rows(ctx, rep)
    # a container that wraps a text is there: its constructor yields a token on every path
    from . import c12
    c12.rule_new_fresh(ctx, rep)
    rule_marker_arith(ctx, rep)
    # "recursive tokenization of the stripped lines with the parent's start line": the line bookkeeping of the
    # nested calls and of what the nested tokenizer builds from it is shared with C13
    c13.rule_origin(ctx, rep)
    c13.rule_rows(ctx, rep)
    # the content of a quote / list item is interrupted like top-level text (interruption table in use under both
    # settings of the setext switch that Quote.read flips): shared with C03
    from . import c03
    c03.rule_used(ctx, rep)
    # the plain text and the wrapped text go through the same Document entry: nothing in it may treat the very
    # beginning of the input specially (shared with C15)
    from . import c15
    c15.rule_normal_form(ctx, rep)
    rule_marker_claim(ctx, rep)
    rule_buffer_intact(ctx, rep)
    # R-NEST-PHASE (shared with C07 clause c)
    from . import c07
    cg = ctx.callgraph()
    ctors = c07.token_constructors(model)
    reach = cg.reachable(ctors)
    rep.instance('R-NEST-PHASE')
    ok = tb.qualname not in reach
    rep.obligation('R-NEST-PHASE', ok, {'tokenize_block reachable from a token constructor': not ok})
    if not ok:
        p = cg.path(ctors, tb)
        rep.find('R-NEST-PHASE', p[0], 'block-tokenize-in-constructor', 'a token constructor re-enters the block tokenizer: %s'
                 % ' -> '.join(p), '')
    rep.assume('scratch state of the start->read protocol (C05) is not parser configuration')
