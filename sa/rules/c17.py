"""
C17 - LaTeX output keeps its group/environment structure whatever the text says.

Same engine as C08 with a LaTeX context model (decided for LaTeXRenderer):
  R-TEX-HOLE       no document-derived LaTeX-special character reaches a TEXT / OPTION / PATH /
                   URL hole in unescaped form (the image of every special under the sanitiser chain
                   must lex as a control sequence); \\verb content is closed by a delimiter that
                   the path condition proves absent from the content.
  R-TEX-BALANCE    every skeleton has balanced braces and properly nested \\begin/\\end pairs.
  R-TEX-SANITISER  render_raw_text(escape=True) and escape_url, from their own bodies, map every
                   special character to an escaped form (composition of str.replace homomorphisms).
Math spans (render_math) are passed through by design and set aside.
"""
import re

from ..interp import Interp, enumerate_paths, Raised, is_abstract
from ..model import AnalysisError, ClassInfo, FuncInfo, loc
from .. import templates as T
from .c08 import universe, get_facts, cfg_label

EXPLANATION = (
    "Each render method of LaTeXRenderer reachable through its statically evaluated render_map is "
    "interpreted abstractly on an abstract token of every class routed to it; the returned "
    "skeletons (literal template text with typed holes, {{ }} unescaped) are walked by a small TeX "
    "lexer that classifies each hole (TEXT, URL argument of \\href/\\url, OPTION, PATH of "
    "\\includegraphics, \\verb, lstlisting body) and checks brace and environment balance. "
    "Sanitiser chains act on the image of each special character, so a missing or mis-ordered "
    "replace is computed, not assumed. For \\verb the path condition must contain 'delimiter not "
    "in content'. Whether the document compiles, and verbatim bodies, are not decided.")

EXEMPT_CLASSES = {'Math'}


def _task(args):
    model, cfg, facts, key, func, cls = args
    unit = model.unit_of(func)
    recs = []
    n_holes = 0
    outs = T.run_render_method(model, cfg, func, cls, facts)
    for po in outs:
        if po.truncated:
            continue
        if po.raised is not None:
            recs.append(('note', '%s(%s) raises %s' % (func.short, cls.name, po.raised.exc.kind)))
            continue
        v = po.value
        sk = v if isinstance(v, T.Skel) else T.Skel.of(v)
        issues, holes = T.lex_tex(sk)
        n_holes += len(holes)
        if key in EXEMPT_CLASSES:
            recs.append(('note', '%s returns %s for %s: passed through by design (math)' % (func.short, sk.text()[:40], key)))
            continue
        hole_issues = [i for i in issues if i[0] == 'hole']
        bal = [i for i in issues if i[0] == 'balance']
        recs.append(('ob', 'R-TEX-HOLE', not hole_issues, {'method': func.short, 'token': key, 'skeleton': sk.text()[:140],
                                                           'holes': ['%s:%s' % (c, T._hole_name(h)) for c, h in holes]}))
        recs.append(('ob', 'R-TEX-BALANCE', not bal, {'method': func.short, 'skeleton': sk.text()[:140]}))
        for kind, detail, hole, hctx in hole_issues:
            label = getattr(hole, 'label', None) or T._hole_name(hole)
            recs.append(('find', 'R-TEX-HOLE', func.short, '%s->%s' % (label, (hctx or '').split(':')[0]),
                         '%s (token %s): %s; skeleton %r' % (func.short, key, detail, sk.text()[:120]), loc(unit, func.node)))
        for kind, detail, hole, hctx in bal:
            recs.append(('find', 'R-TEX-BALANCE', func.short, detail[:50],
                         '%s (token %s): %s; skeleton %r' % (func.short, key, detail, sk.text()[:120]), loc(unit, func.node)))
        proven, d = check_verb(po, sk, holes)
        if proven is not None:
            recs.append(('inst', 'R-TEX-VERB'))
            recs.append(('ob', 'R-TEX-VERB', proven, {'method': func.short, 'delimiter': d}))
            if not proven:
                recs.append(('find', 'R-TEX-VERB', func.short, 'verb-delimiter',
                             '%s emits \\verb%s...%s on a path that does not establish that %r is absent from the '
                             'content' % (func.short, d, d, d), loc(unit, func.node)))
    return recs, n_holes, func.short


def check_verb(po, sk, holes):
    """On a returning path of render_inline_code the chosen delimiter is proven absent."""
    for ctx, v in holes:
        if ctx.startswith('VERB:') and isinstance(v, T.Taint):
            d = ctx[5:]
            proven = False
            for k, val in po.trace:
                if isinstance(k, tuple) and k and k[0] == 'contains' and k[1] == d and val is False:
                    proven = True
            return proven, d
    return None, None


def rule_toggle_restored(ctx, rep, cfgs):
    """LaTeXRenderer raises a documented refusal (no free \\verb delimiter) that callers are expected to catch and
    carry on after. A renderer attribute that a method switches for a while (escaping off, a mode flag) must
    therefore be switched back on every exit, the exceptional one included: restore in a finally."""
    import ast as _ast
    from .c11 import restore_protects, Write, stmt_of
    from ..model import walk_function
    model = ctx.model
    rep.rule('R-TEX-STATE', 'a renderer attribute switched inside a method is restored on every exit, exceptions included')
    n = 0
    seen = set()
    for cfg in cfgs:
        for c in cfg.cls.mro():
            if not isinstance(c, ClassInfo):
                continue
            for name, m in c.methods.items():
                if name == '__init__' or not m.params() or m in seen:
                    continue
                seen.add(m)
                selfname = m.params()[0]
                by_attr = {}
                for node in walk_function(m.node):
                    if isinstance(node, _ast.Assign):
                        for t in node.targets:
                            if isinstance(t, _ast.Attribute) and isinstance(t.value, _ast.Name) and t.value.id == selfname:
                                by_attr.setdefault(t.attr, []).append(Write('instance:%s.%s' % (c.short, t.attr), m, t, 'assign', node.value))
                for attr, ws in by_attr.items():
                    if len(ws) < 2:
                        continue
                    ws.sort(key=lambda w: (w.node.lineno, w.node.col_offset))
                    rep.instance('R-TEX-STATE')
                    for w in ws[:-1]:
                        n += 1
                        ok, why = restore_protects(m, w, ws[-1])
                        rep.obligation('R-TEX-STATE', ok, {'method': m.short, 'attribute': attr, 'why': why})
                        if not ok:
                            rep.find('R-TEX-STATE', m.short, 'self.%s' % attr,
                                     '%s switches self.%s and switches it back later, but %s: after a refusal raised in between '
                                     '(callers catch it and go on) the renderer keeps the switched value for every later document'
                                     % (m.short, attr, why), loc(model.unit_of(m), w.node))
    rep.extra['toggle_sites'] = n


def rule_math_span(ctx, rep, cfgs):
    """Math spans are passed through unescaped by design - which is only sound if what the token holds is
    a math span and nothing else: the text the Math pattern hands to the token (its parse group) must be
    $...$ or $$...$$ with no dollar inside (language inclusion; a back-reference is widened to its group)."""
    from .. import rx
    from ..interp import Interp, RxVal
    model = ctx.model
    rep.rule('R-TEX-MATH', 'the text passed through for a math span is exactly a dollar-delimited span (language inclusion)')
    for cname in sorted(EXEMPT_CLASSES):
        cands = [c for cfg in cfgs for c in cfg.span_types if getattr(c, 'name', None) == cname]
        if not cands:
            raise AnalysisError('anchor vanished: exempt class %s is not registered by LaTeXRenderer' % cname)
        cls = cands[0]
        it = Interp(model)
        pv = it.class_attr(cls, 'pattern')
        pg = it.class_attr(cls, 'parse_group')
        rep.instance('R-TEX-MATH')
        if not isinstance(pv, RxVal):
            raise AnalysisError('anchor vanished: %s.pattern is not a regex literal' % cls.short)
        if pg != 0:
            raise AnalysisError('%s.parse_group is %r: only the whole match (0) is handled' % (cls.short, pg))
        A = rx.ALPHABET_CORE
        L = rx.Lang(pv.pattern, pv.flags, mode='full', alphabet=A, name=cls.short + '.pattern', relax_backrefs=True)
        try:
            # exact when the back-referenced delimiter group has finitely many values ($ or $$): the closing delimiter
            # is the opening one
            L = rx.Lang(pv.pattern, pv.flags, mode='full', alphabet=A, name=cls.short + '.pattern')
        except rx.RxUnsupported:
            pass
        S = rx.Lang(r'\$[^$]+\$|\$\$[^$]+\$\$', re.DOTALL, mode='full', alphabet=A, name='spec:math span')
        w = rx.witness([L], [S], A)
        rep.obligation('R-TEX-MATH', w is None, {'class': cls.short, 'pattern': pv.pattern, 'witness': w})
        if w is not None:
            rep.find('R-TEX-MATH', cls.short + '.pattern', 'passes-through-more-than-a-math-span',
                     'the %s pattern hands the text %r to the token, which render_math emits unescaped although it is not a '
                     'dollar-delimited span: document text outside the span (e.g. backslashes in front of it) reaches LaTeX raw'
                     % (cname, w), loc(model.unit_of(cls), cls.node), witness='A ' + w)


def run(ctx):
    rep = ctx.report
    model = ctx.model
    rep.rule('R-TEX-HOLE', 'no LaTeX-special character from the document reaches a hole unescaped for its context')
    rep.rule('R-TEX-BALANCE', 'balanced braces and nested \\begin/\\end per skeleton')
    rep.rule('R-TEX-SANITISER', 'render_raw_text / escape_url map every special to an escaped form')
    rep.rule('R-TEX-VERB', '\\verb delimiter proven absent from the content on every returning path')
    facts = get_facts(ctx)
    cfgs = [c for c in ctx.configs() if c.label == 'LaTeXRenderer']
    if not cfgs:
        raise AnalysisError('no LaTeXRenderer configuration evaluated')
    rule_math_span(ctx, rep, cfgs)
    rule_toggle_restored(ctx, rep, cfgs)
    n_holes = 0
    methods = set()
    for cfg in cfgs:
        if cfg.error is not None:
            raise AnalysisError('LaTeXRenderer cannot be constructed: %r' % cfg.error)
        uni = universe(cfg, facts)
        by_name = {}
        for c in uni:
            by_name.setdefault(c.name, []).append(c)
        tasks = []
        for key, func in sorted(cfg.render_map.items()):
            if not isinstance(func, FuncInfo):
                continue
            for cls in by_name.get(key, []):
                tasks.append((model, cfg, facts, key, func, cls))
        from ..par import pmap
        from .c08 import replay
        for recs, nh, m in pmap(_task, tasks):
            rep.instance('R-TEX-HOLE')
            replay(rep, recs)
            n_holes += nh
            methods.add(m)
        # sanitisers from their own bodies
        for name, specials, what in (('render_raw_text', T.TEX_TEXT_SPECIALS, 'text'), ('escape_url', T.TEX_URL_SPECIALS, 'url')):
            hit = cfg.cls.lookup(name)
            if hit is None or hit[0] != 'method':
                raise AnalysisError('anchor vanished: %s.%s' % (cfg.cls.short, name))
            func = hit[1]
            rep.instance('R-TEX-SANITISER')

            def runner(oracle, func=func, name=name):
                it = Interp(model)
                it.reset_run(oracle)
                T.install_string_hooks(it)
                if name == 'render_raw_text':
                    from ..tokens import Facts
                    class Tok(T.AbstractValue):
                        content = T.Taint('RawText.content')
                        def abs_getattr(self, interp, n):
                            return self.content if n == 'content' else T.Unknown(n)
                    return it.call_function(func, [T.clone_obj(cfg.obj), Tok()], {})
                args = [T.Taint('url')] if func.kind == 'staticmethod' else [T.clone_obj(cfg.obj), T.Taint('url')]
                return it.call_function(func, args, {})
            for trace, v in enumerate_paths(runner, 16):
                if not isinstance(v, T.Taint):
                    rep.obligation('R-TEX-SANITISER', False, {'helper': func.short, 'result': repr(v)})
                    rep.find('R-TEX-SANITISER', func.short, 'shape', '%s does not return a sanitised string (%r)' % (func.short, v),
                             loc(model.unit_of(func), func.node))
                    continue
                for c in sorted(specials):
                    ok = T.tex_safe(v.images[c], specials)
                    rep.obligation('R-TEX-SANITISER', ok, {'helper': func.short, 'char': c, 'image': v.images[c]})
                    if not ok:
                        rep.find('R-TEX-SANITISER', func.short, 'image(%s)' % c,
                                 '%s maps %r to %r, which is not an escaped form: document text can %s'
                                 % (func.short, c, v.images[c],
                                    'start a control sequence and unbalance groups' if c == '\\' else 'act as LaTeX syntax'),
                                 loc(model.unit_of(func), func.node), witness='a\\\\{b' if c == '\\' else None)
    rep.extra['methods_analysed'] = sorted(methods)
    rep.extra['holes_examined'] = n_holes
    rep.floor('R-TEX-HOLE', len(methods), 20)
    rep.assume('urllib.parse.quote emits only unreserved characters, the `safe` set and %XX')
    rep.assume('rendered children are safe (induction over the token tree)')
    rep.assume('specials judged: \\ { } $ # % & _ ^ in text/option/path contexts; \\ { } % $ # in hyperref URL arguments')
