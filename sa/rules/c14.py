"""
C14 - ordinary prose passes through unchanged.

Decided statically (necessary conditions, see DESIGN.md C14):
  R-START-INCL    language of each regex-based block start  (pattern.match on a
                  well-formed line, plus the filter the start applies)  is included
                  in the CommonMark 0.30 reference language -> no prose line is
                  over-accepted as a block start. Decided by automata inclusion;
                  the shortest counter-example line is reported.
  R-START-ANCHOR  each block start applies its pattern with `.match` (anchored).
  R-START-ONLY-IF the start returns truthy only on paths where its pattern matched.
  R-QUOTE-INDENT  Quote.start rejects more than three leading spaces and accepts
                  only a '>' first character (decision paths of the scanner).
  R-FLANK         (imported from C06) intraword '_' and isolated '*'/'_' are
                  neither opener nor closer.
  R-GAP-VERBATIM  (imported from C16) text between inline tokens reaches the
                  fallback token through html.unescape only.
"""

import ast

import re

from .. import rx, blockproto
from ..domains import AbsStr
from ..interp import Interp, Oracle, RxVal, AbstractValue, Unknown, Raised
from ..affine import Aff
from ..domains import Cond
from ..model import AnalysisError, loc
from ..spec import blockstart

EXPLANATION = (
    "Static decision of the over-acceptance clause of C14: for every regex-based block start the "
    "regex literal is recovered from the source by constant folding, compiled to an NFA "
    "(Thompson construction from re._parser output) and its prefix-match language over all "
    "well-formed lines of the alphabet is checked for inclusion in the CommonMark 0.30 reference "
    "language by product construction (shortest witness reported). The start methods are "
    "path-enumerated abstractly to show that they use `.match`, return truthy only when the "
    "pattern matched, and which extra filter they apply. Flanking tables and gap verbatimness "
    "are shared with C06/C16. The behaviour 'rendered text equals the input' is not decided.")

# class -> (spec language name, how the pattern is found)
TARGETS = [
    ('block_token.Heading', 'start', 'Heading'),
    ('block_token.ThematicBreak', 'start', 'ThematicBreak'),
    ('block_token.CodeFence', 'start', 'CodeFence'),
    ('block_token.List', 'start', 'ListMarker'),
    ('block_token.Paragraph', 'is_setext_heading', 'SetextUnderline'),
]


def _is_backtick_filter(trace):
    """True if the decisions of this path include 'fence char is a backtick' and 'info string
    contains a backtick' both taken as true."""
    d1 = d2 = False
    for k, v in trace:
        if not (isinstance(k, tuple) and v):
            continue
        if k[0] == 'streq' and k[2] == '`' and isinstance(k[1], tuple) and k[1][0] == 'idx' \
                and isinstance(k[1][2], tuple) and k[1][2][0] == 'group':
            d1 = True
        if k[0] == 'strtest' and k[1] == 'startswith' and k[2] == ('`',) \
                and isinstance(k[3], tuple) and k[3][0] == 'group':
            d1 = True
        if k[0] == 'contains' and k[1] == '`' and isinstance(k[2], tuple) and k[2][0] == 'group':
            d2 = True
    return d1 and d2


def check_start_language(ctx, rep, cls_short, method, spec_name, alphabet, judged=True):
    model = ctx.model
    cls = model.cls(cls_short)
    fi = model.method(cls_short, method)
    unit = model.unit_of(fi)
    where = '%s.%s' % (cls.short, method)
    paths = blockproto.explore_classfunc(model, cls, method, lambda it: [AbsStr(label='line')])
    rep.instance('R-START-INCL')
    patterns = {}
    filter_absent = False
    for pr in paths:
        for m in pr.matches:
            patterns[m.rx] = m
    if not _one_whole_line_regex(patterns):
        # a start written (partly) by hand, or as several patterns: its language is not read off one regex literal
        rep.note('%s does not apply exactly one regex literal to the whole line (%d pattern(s)): its language is not decided'
                 % (where, len(patterns)))
        rep.extra.setdefault('undecided_starts', []).append(where)
        return None, None, None
    for pr in paths:
        for m in pr.matches:
            # R-START-ANCHOR
            if isinstance(m.subject, AbsStr):
                ok = m.method == 'match'
                rep.obligation('R-START-ANCHOR', ok, {'site': where, 'method': m.method, 'pattern': m.rx.pattern})
                if not ok:
                    rep.find('R-START-ANCHOR', where, 'pattern.%s' % m.method,
                             'block start applies its pattern with .%s instead of the anchored .match'
                             % m.method, loc(unit, fi.node))
        if pr.truth:
            matched = [m for m in pr.matches if pr.match_decisions.get(m.key)]
            ok = bool(matched)
            rep.obligation('R-START-ONLY-IF', ok, {'site': where, 'path': _short_trace(pr.trace)})
            if not ok:
                rep.find('R-START-ONLY-IF', where, 'truthy-return-without-match',
                         'a path returns truthy although the block pattern did not match '
                         '(decisions: %s)' % _short_trace(pr.trace), loc(unit, fi.node))
            if spec_name == 'CodeFence' and ok and _is_backtick_filter(pr.trace):
                filter_absent = True
    if spec_name == 'CodeFence':
        any_true = any(pr.truth for pr in paths)
        excluded = [pr for pr in paths if not pr.truth and _is_backtick_filter(pr.trace)]
        if not excluded:
            filter_absent = True
    rxv = list(patterns)[0]
    line = rx.line_lang(alphabet)
    L = rx.Lang(rxv.pattern, rxv.flags, mode='match', alphabet=alphabet, name=where)
    S = rx.Lang(blockstart.SPEC[spec_name], mode='full', alphabet=alphabet, name='spec:' + spec_name)
    neg = [S]
    filt = None
    if spec_name == 'CodeFence' and not filter_absent:
        filt = rx.Lang(blockstart.CODEFENCE_BACKTICK_INFO, mode='full', alphabet=alphabet)
        neg.append(filt)
    w = rx.witness([L, line], neg, alphabet)
    states = rx.explored_states([L, line], neg, alphabet) if ctx.thorough else None
    sample = {'site': where, 'pattern': rxv.pattern, 'spec': blockstart.SPEC[spec_name],
              'filter': 'backtick-info rejected' if filt else None, 'witness': w}
    if states is not None:
        sample['product_states'] = states
    if judged:
        rep.obligation('R-START-INCL', w is None, sample)
        if w is not None:
            rep.find('R-START-INCL', '%s.%s' % (cls.short, _pattern_attr(cls, rxv, model)),
                     'over-accepts', 'the block-start language is not included in the CommonMark 0.30 '
                     'language for %s: line %r is accepted by %r but is not a %s start in the '
                     'specification' % (spec_name, w, rxv.pattern, spec_name), loc(unit, fi.node), witness=w)
    under = rx.witness([S, line] + ([filt] if False else []), [L], alphabet)
    return w, under, rxv


def _one_whole_line_regex(patterns):
    """Exactly one regex literal, applied to the line as it was handed in (not to a slice or a stripped copy, not from a
    position other than 0)."""
    if len(patterns) != 1:
        return False
    m = list(patterns.values())[0]
    subj = m.subject
    prov = getattr(subj, 'prov', None)
    whole = isinstance(subj, AbsStr) and isinstance(prov, tuple) and prov[:1] == ('src',)
    pos = getattr(m, 'pos', 0)
    return whole and (pos == 0 or pos is None)


def start_pattern(ctx, cls_short, method):
    """The one regex a block start applies to its line (no reporting)."""
    model = ctx.model
    cls = model.cls(cls_short)
    paths = blockproto.explore_classfunc(model, cls, method, lambda it: [AbsStr(label='line')])
    patterns = {}
    for pr in paths:
        for m in pr.matches:
            patterns[m.rx] = m
    if not _one_whole_line_regex(patterns):
        return None
    return list(patterns)[0]


def _pattern_attr(cls, rxv, model):
    it = Interp(model)
    for c in cls.mro():
        for name in getattr(c, 'attrs', {}):
            try:
                v = it.class_attr(c, name)
            except Exception:
                continue
            if isinstance(v, RxVal) and v == rxv:
                return name
    return 'pattern'


def _short_trace(trace):
    out = []
    for k, v in trace:
        s = str(k)
        out.append('%s=%s' % (s if len(s) < 70 else s[:67] + '...', v))
    return out[:8]



class IndentedLine(AbstractValue):
    """A tab-free line known by its number of leading spaces (concrete, enumerated) and otherwise abstract."""

    def __init__(self, indent):
        self.indent = indent
        self.prov = ('indented-line', indent)

    def abs_len(self, interp):
        return Aff({'L': 1}, self.indent)

    def abs_method(self, interp, name, args, kwargs):
        if name == 'lstrip' and (not args or args[0] in (' ', ' \t')):
            return Rest()
        if name in ('startswith',):
            off = 0
            if len(args) > 1:
                a = Aff.lift(args[1])
                off = a.const if a is not None and a.is_const() else None
            if args and isinstance(args[0], str) and args[0] and args[0][0] != ' ' and off is not None:
                if off < self.indent:
                    return False          # a space is there
                if off == self.indent:
                    return Cond(('rest-startswith', args[0]))
            return Cond(('line-test', name, _freeze_args(args)))
        if name == 'replace':
            return self
        return Unknown('line.' + name)

    def abs_getattr(self, interp, name):
        from ..domains import _AbsBound
        return _AbsBound(self, name)

    def abs_getitem(self, interp, idx):
        def const(x):
            a = Aff.lift(x) if x is not None else None
            return a.const if a is not None and a.is_const() else None
        if isinstance(idx, slice) and idx.step is None:
            lo, hi = const(idx.start) if idx.start is not None else 0, const(idx.stop) if idx.stop is not None else None
            if lo is not None and idx.stop is None and 0 <= lo <= self.indent:
                return Rest() if lo == self.indent else IndentedLine(self.indent - lo)
            if lo == 0 and hi is not None and 0 <= hi <= self.indent:
                return ' ' * hi
            return Unknown('line[:]')
        k = const(idx)
        if k is not None and 0 <= k < self.indent:
            return ' '
        if k is not None and k == self.indent:
            return RestChar()
        return Unknown('line[]')


class RestChar(AbstractValue):
    """First character of the line after its leading spaces."""
    prov = ('rest-char',)

    def abs_compare(self, interp, op, other, reflected):
        if isinstance(other, str) and op in (ast.Eq, ast.NotEq):
            if other == ' ' or len(other) != 1:
                return op is ast.NotEq
            c = Cond(('rest-startswith', other))
            return c if op is ast.Eq else interp.negate(c)
        return Unknown('restchar-cmp')


class Rest(AbstractValue):
    """The line after its leading spaces (first character is not a space)."""
    prov = ('rest',)

    def abs_len(self, interp):
        return Aff({'L': 1}, 0)

    def abs_method(self, interp, name, args, kwargs):
        if name == 'startswith':
            return Cond(('rest-startswith', args[0] if args else None))
        return Unknown('rest.' + name)

    def abs_getattr(self, interp, name):
        from ..domains import _AbsBound
        return _AbsBound(self, name)

    def abs_getitem(self, interp, idx):
        a = Aff.lift(idx) if not isinstance(idx, slice) else None
        if a is not None and a.is_const() and a.const == 0:
            return RestChar()
        return Unknown('rest[]')


def _freeze_args(args):
    return tuple(a if isinstance(a, (str, int)) else repr(a) for a in args)


def rule_scanner_indent(ctx, rep, rule='R-SCANNER-INDENT', upto=6, desc=None):
    """Hand-written block starts honour the 'up to three spaces of indentation' rule: decision table over
    the number of leading spaces (0..6) of a tab-free line. With upto=3 only the half 'the up to three spaces
    that a paragraph would drop make no difference' is decided (shared with C09)."""
    model = ctx.model
    rep.rule(rule, desc or 'Quote.start / HtmlBlock.start accept at most three leading spaces')
    from ..interp import enumerate_paths
    for short, must in (('block_token.Quote', ('rest-startswith', '>')), ('block_token.HtmlBlock', None)):
        cls = model.cls(short)
        st = cls.lookup('start')[1]
        rep.instance(rule)
        for n in range(0, upto + 1):
            def run_(oracle, n=n):
                it = Interp(model, loop_bound=1)
                it.reset_run(oracle)
                def rx_match(interp, a, k):
                    # a regex applied to the line: impossible when no line with exactly n leading spaces (then a
                    # non-space) has a matching prefix; otherwise undetermined - and if every such line that it
                    # matches starts its text with the required character, the match is that test as well
                    pat, subj = a[0], a[1] if len(a) > 1 else None
                    if isinstance(subj, IndentedLine):
                        A = rx.ALPHABET_CORE
                        try:
                            Lp = rx.Lang(pat.pattern, pat.flags, mode='match', alphabet=A)
                            Ln = rx.Lang(' {%d}[^ \\n][^\\n]*\\n' % subj.indent, mode='full', alphabet=A)
                            if rx.witness([Lp, Ln], [], A) is None:
                                return None
                            if must is not None:
                                Lo = rx.Lang(' {%d}[^ \\n%s][^\\n]*\\n' % (subj.indent, re.escape(must[1])), mode='full', alphabet=A)
                                if rx.witness([Lp, Lo], [], A) is None:
                                    return interp.truth(Cond(must)) or None
                        except rx.RxUnsupported:
                            pass
                    return Cond(('rx', a[0].pattern[:20]))
                it.intrinsics['rx.match'] = rx_match
                try:
                    r = it.call(it.getattr(cls, 'start'), [IndentedLine(n)], {})
                    return bool(it.truth(r)), list(oracle.trace)
                except Raised:
                    return None, list(oracle.trace)
            outs = [res for tr, res in enumerate_paths(run_, 400)]
            any_true = any(o[0] for o in outs if o[0] is not None)
            if n >= 4:
                ok = not any_true
                why = 'a line indented by %d spaces is accepted' % n
            else:
                ok = any_true
                why = 'a line indented by %d spaces is never accepted' % n
                if ok and must is not None:
                    for t, tr in outs:
                        if t and not any(k == must and v for k, v in tr):
                            ok, why = False, 'accepted without testing that the text starts with %r' % (must[1],)
            rep.obligation(rule, ok, {'start': st.short, 'leading_spaces': n, 'accepts': any_true})
            if not ok:
                rep.find(rule, st.short, 'indent=%d' % n, '%s: %s (CommonMark: up to three spaces of indentation; four or '
                         'more make indented code / paragraph text)' % (st.short, why), loc(model.unit_of(st), st.node))


def rule_table_delimiter(ctx, rep):
    """A table is recognised only if its second line is a delimiter row, the whole line: every path of
    Table.read (abstract lines) that returns a table must have decided a regex test on the second line, and
    the lines that test accepts (bounded or not, as applied) must all be delimiter rows of the GFM grammar."""
    from . import c13
    model = ctx.model
    rule = 'R-TABLE-DELIM'
    rep.rule(rule, 'Table.read accepts a second line only if the whole line is a delimiter row (language inclusion)')
    tb = model.cls('block_token.Table')
    rd = tb.lookup('read')[1]
    rep.instance(rule)
    tests = {}
    n = 0
    untested = 0
    for trace, (kind, r, nested, w) in c13.explore_reader(model, tb, nlines=3):
        if kind != 'ret' or r is None:
            continue
        n += 1
        mine = []
        for k, v in trace:
            kk = k[1] if isinstance(k, tuple) and len(k) == 2 and k[0] == 'cond' else k
            if isinstance(kk, tuple) and len(kk) == 4 and kk[0] == 'match' and v is True and c13.line_index(kk[3]) == 1 \
                    and _is_whole_line(kk[3]):
                mine.append((kk[1], kk[2]))
        if not mine:
            untested += 1
        for t in mine:
            tests[t] = tests.get(t, 0) + 1
    if n == 0:
        raise AnalysisError('Table.read has no path that returns a table')
    ok = untested == 0
    rep.obligation(rule, ok, {'paths returning a table': n, 'without a test of the second line': untested})
    if not ok:
        rep.find(rule, rd.short, 'second-line-untested', 'Table.read can return a table without having matched its second line '
                 'against a delimiter-row pattern', loc(model.unit_of(rd), rd.node))
    A = rx.ALPHABET_CORE
    S = rx.Lang(blockstart.SPEC['TableDelimiterRow'], mode='full', alphabet=A, name='spec:TableDelimiterRow')
    for (method, pattern), cnt in sorted(tests.items()):
        L = rx.Lang(pattern, 0, mode='full' if method == 'fullmatch' else 'match', alphabet=A, name='Table.read second line')
        w = rx.witness([L, rx.line_lang(A)], [S], A)
        rep.obligation(rule, w is None, {'test': '%s(%r)' % (method, pattern), 'paths': cnt, 'witness': w})
        if w is not None:
            rep.find(rule, rd.short, 'over-accepts:%s' % method,
                     'Table.read accepts the second line %r as a delimiter row (%s of %r), which is not one in the GFM grammar: '
                     'a paragraph whose second line merely begins like a delimiter row becomes a table and loses that line'
                     % (w, method, pattern), loc(model.unit_of(rd), rd.node), witness='item | qty\n' + w)


# span token -> what any text it matches must look like (so that the inert spellings named in the property cannot match)
INERT_SPANS = {
    'Strikethrough': (r'(?:\\\\)*~~.+~~', 'two tildes, text, two tildes (an isolated ~ is literal)'),
}


def rule_span_inert(ctx, rep):
    """An isolated ~ stays literal: every text the Strikethrough pattern can match is ~~...~~ (language inclusion;
    one-character look-arounds are followed, a back-reference is widened to its group)."""
    import re as _re
    model = ctx.model
    rule = 'R-SPAN-INERT'
    rep.rule(rule, 'inline patterns cannot match the inert spellings (language inclusion)')
    default = [c for c in ctx.configs() if c.label == 'HtmlRenderer' and not c.options][0]
    for cname, (spec_rx, what) in sorted(INERT_SPANS.items()):
        cands = [c for c in default.span_types if getattr(c, 'name', None) == cname]
        if not cands:
            rep.note('%s is not in the default span token list' % cname)
            continue
        cls = cands[0]
        pv = Interp(model).class_attr(cls, 'pattern')
        if not isinstance(pv, RxVal):
            raise AnalysisError('anchor vanished: %s.pattern is not a regex literal' % cls.short)
        rep.instance(rule)
        A = rx.ALPHABET_CORE
        L = rx.Lang(pv.pattern, pv.flags, mode='full', alphabet=A, name=cls.short + '.pattern', relax_backrefs=True)
        S = rx.Lang(spec_rx, _re.DOTALL, mode='full', alphabet=A, name='spec:' + cname)
        w = rx.witness([L], [S], A)
        rep.obligation(rule, w is None, {'class': cname, 'pattern': pv.pattern, 'must look like': what, 'witness': w})
        if w is not None:
            rep.find(rule, cls.short + '.pattern', 'matches-inert-text', 'the %s pattern matches %r, which is not %s: ordinary prose '
                     'with isolated characters is turned into markup' % (cname, w, what), loc(model.unit_of(cls), cls.node),
                     witness='a ' + w + ' c')


def _is_whole_line(frozen):
    """The frozen subject of a match is an input line itself (not a slice or a stripped copy)."""
    return isinstance(frozen, tuple) and len(frozen) == 3 and frozen[0] == 'src'


def run(ctx):
    rep = ctx.report
    model = ctx.model
    rule_scanner_indent(ctx, rep)
    rule_table_delimiter(ctx, rep)
    rule_span_inert(ctx, rep)
    rep.rule('R-START-INCL', 'L_match(block pattern) intersect filter is included in the spec language (automata)')
    rep.rule('R-START-ANCHOR', 'block starts apply their pattern with .match')
    rep.rule('R-START-ONLY-IF', 'start returns truthy only if its pattern matched')
    rep.rule('R-LISTITEM-INCL', 'ListItem.pattern (marker parser used by List.read) included in the spec language')
    rep.assume('every line handed to a block start is of the form [^\\n]*\\n (C15 R-NORMAL-FORM, C01 INV-NL)')
    rep.assume('alphabet: printable ASCII, tab, newline and one non-ASCII letter; other code points behave '
               'like the non-ASCII letter for every character class used by the patterns')
    notes = {}
    for cls_short, method, spec_name in TARGETS:
        w, under, rxv = check_start_language(ctx, rep, cls_short, method, spec_name, rx.ALPHABET_CORE)
        notes['%s.%s' % (cls_short, method)] = {'over_witness': w, 'under_witness_reported_only': under}
        if ctx.thorough and rxv is not None:
            wf, uf, _ = check_start_language_notes(ctx, cls_short, method, spec_name, rxv)
            notes['%s.%s' % (cls_short, method)]['extended_alphabet'] = {'over': wf, 'under': uf}
    # ListItem.pattern: the marker parser that List.read relies on
    li = model.cls('block_token.ListItem')
    it = Interp(model)
    pv = it.class_attr(li, 'pattern')
    if not isinstance(pv, RxVal):
        raise AnalysisError('anchor vanished: ListItem.pattern is not a regex literal')
    rep.instance('R-LISTITEM-INCL')
    A = rx.ALPHABET_CORE
    L = rx.Lang(pv.pattern, pv.flags, mode='match', alphabet=A)
    S = rx.Lang(blockstart.SPEC['ListMarker'], mode='full', alphabet=A)
    w = rx.witness([L, rx.line_lang(A)], [S], A)
    rep.obligation('R-LISTITEM-INCL', w is None, {'pattern': pv.pattern, 'witness': w})
    if w is not None:
        rep.find('R-START-INCL', 'block_token.ListItem.pattern', 'over-accepts',
                 'ListItem.pattern accepts %r which is not a list marker line in CommonMark 0.30'
                 % w, loc(model.unit_of(li), li.node), witness=w)
    rep.extra['language_notes'] = notes
    rep.floor('R-START-INCL', rep.rules['R-START-INCL']['instances'], 5)
    rep.floor('R-START-ANCHOR', rep.rules['R-START-ANCHOR']['obligations'] + len(rep.extra.get('undecided_starts', [])), 5)
    # shared clauses
    from . import c03
    c03.rule_cond(ctx, rep)     # digits, dots and parentheses that do not form an interrupting list marker stay prose
    # prose that merely starts like a link reference definition ("[note]: see appendix B") stays prose: the definition
    # reader on the table of the definition grammar (shared with C07)
    from . import c07
    c07.rule_def_rows(ctx, rep)
    # "... is rendered as exactly that text, HTML-escaped": the text escaper establishes its postcondition for every
    # character, an ampersand in front of something that looks like a reference included (shared with C08)
    from . import c08
    rep.rule('R-SANITISER', 'escaping helpers establish their postcondition (computed from their bodies)')
    c08.rule_sanitisers(ctx, rep, [c for c in ctx.configs() if c.label == 'HtmlRenderer' and c.error is None], None)
    from . import c06, c16
    c06.rule_flank(ctx, rep, prose_rows_only=True)
    c16.rule_gap_verbatim(ctx, rep)
    # inert text stays inert only if no markup found in earlier text is attributed to it: the hand-off buffer between
    # the core-token scan and InlineCode.find is emptied before every scan (shared with C11 / C05)
    from . import c11
    c11.rule_handoff(ctx, rep, rule='R-HANDOFF')
    c11.rule_must_refresh(ctx, rep, rule='R-HANDOFF')
    # a reader that gives up (a pipe on two lines is not yet a table) hands every line back, no more and no fewer:
    # nothing of the inert text is dropped or parsed twice (shared with C01)
    from . import c01
    from .c08 import get_facts
    c01.rule_progress(ctx, rep, get_facts(ctx))


def check_start_language_notes(ctx, cls_short, method, spec_name, rxv):
    A = rx.ALPHABET_FULL
    line = rx.line_lang(A)
    L = rx.Lang(rxv.pattern, rxv.flags, mode='match', alphabet=A)
    S = rx.Lang(blockstart.SPEC[spec_name], mode='full', alphabet=A)
    neg = [S]
    if spec_name == 'CodeFence':
        neg.append(rx.Lang(blockstart.CODEFENCE_BACKTICK_INFO, mode='full', alphabet=A))
    return rx.witness([L, line], neg, A), rx.witness([S, line], [L], A), None
