"""
A small abstract interpreter over the Python AST of the analysed package.

It walks function bodies of /repo *as syntax* (nothing from the analysed tree is
imported or run by CPython) and evaluates them over values that are either
compile-time constants (string/tuple/set literals, class and function
references, regex literals) or members of an abstract domain supplied by a rule
(`AbstractValue` subclasses: symbolic integers that only support comparison,
tainted strings, abstract characters, abstract tokens ...). A test on a value the
domain cannot decide forks the path: all paths are enumerated through a
decision oracle (`enumerate_paths`), loops over unknown iterables are unrolled a
bounded number of times.

Standard-library functions that are pure and total on constants (`len`,
`str.join`, `re.compile` on a literal, `itertools.chain`, ...) are constant-folded;
anything else returns `Unknown` (top).
"""

import ast
import builtins
import collections
import itertools
import operator
import re
import string as _string_mod
import sys
import unicodedata

from .model import (AnalysisError, ClassInfo, ExternalRef, FuncInfo, ModuleRef,
                    ValueRef, PKG)


class InterpError(AnalysisError):
    pass


class PathLimit(InterpError):
    pass


class Infeasible(Exception):
    """The decisions taken on this path contradict each other (path is discarded)."""


# --------------------------------------------------------------------------
# values


class AbstractValue:
    """Base class for domain values. Hooks (all optional):
    abs_getattr(interp, name) / abs_setattr(interp, name, value)
    abs_call(interp, args, kwargs)
    abs_method(interp, name, args, kwargs)
    abs_truth(interp) -> bool
    abs_iter(interp) -> iterable of values
    abs_len(interp)
    abs_getitem(interp, index)
    abs_compare(interp, op, other, reflected) -> value or NotImplemented
    abs_binop(interp, op, other, reflected) -> value or NotImplemented
    """


class PartialVal(AbstractValue):
    """functools.partial(f, *args, **kwargs): the arguments are the values they had when the partial was made."""

    def __init__(self, func, args, kwargs):
        self.func, self.args, self.kwargs = func, list(args), dict(kwargs)

    def __repr__(self):
        return '<partial %r>' % (self.func,)

    def abs_call(self, interp, args, kwargs):
        kw = dict(self.kwargs)
        kw.update(kwargs)
        return interp.call(self.func, self.args + list(args), kw)


class PyFunc(AbstractValue):
    """A callable made by the analyser (operator.itemgetter(...) and the like)."""

    def __init__(self, fn, what):
        self.fn, self.what = fn, what

    def __repr__(self):
        return '<%s>' % self.what

    def abs_call(self, interp, args, kwargs):
        return self.fn(*args)


class LazyIter(AbstractValue):
    """An iterator built from other (possibly abstract or unbounded) iterables: zip / chain / repeat.
    Elements are produced on demand, so an abstract sequence decides element by element how long it is."""

    def __init__(self, make, what):
        self.make = make
        self.what = what
        self._it = None

    def __repr__(self):
        return '<lazy %s>' % self.what

    def abs_iter(self, interp):
        if self._it is None:
            self._it = self.make()
        return self._it

    def abs_truth(self, interp):
        return True


class Unknown(AbstractValue):
    """Top: nothing is known about the value."""

    def __init__(self, tag='?'):
        self.tag = tag

    def __repr__(self):
        return 'Unknown(%s)' % self.tag

    def abs_truth(self, interp):
        return interp.decide(self)

    def abs_getattr(self, interp, name):
        return Unknown('%s.%s' % (self.tag, name))

    def abs_setattr(self, interp, name, value):
        interp.note('setattr-on-unknown', self.tag, name)

    def abs_call(self, interp, args, kwargs):
        return Unknown('%s()' % self.tag)

    def abs_method(self, interp, name, args, kwargs):
        return Unknown('%s.%s()' % (self.tag, name))

    def abs_getitem(self, interp, index):
        return Unknown('%s[]' % self.tag)

    def abs_compare(self, interp, op, other, reflected):
        return Unknown('cmp(%s)' % self.tag)

    def abs_binop(self, interp, op, other, reflected):
        return Unknown('op(%s)' % self.tag)

    def abs_iter(self, interp):
        n = 0
        while n < interp.loop_bound and interp.decide(('iter', id(self), n), fresh=True):
            yield Unknown('%s[*]' % self.tag)
            n += 1


class Obj:
    """Abstract instance of an analysed class."""

    def __init__(self, cls, attrs=None):
        self.cls = cls
        self.attrs = attrs if attrs is not None else {}

    def __repr__(self):
        return '<Obj %s>' % self.cls.short


class BoundMethod:
    def __init__(self, func, receiver):
        self.func = func
        self.receiver = receiver

    def __repr__(self):
        return '<bound %s of %r>' % (self.func.short, self.receiver)

    def __eq__(self, other):
        return isinstance(other, BoundMethod) and other.func is self.func and other.receiver is self.receiver

    def __hash__(self):
        return hash(('BM', id(self.func)))


class LambdaVal:
    def __init__(self, node, frame):
        self.node = node
        self.frame = frame


class SuperVal:
    def __init__(self, receiver, defining_cls):
        self.receiver = receiver
        self.defining_cls = defining_cls


class RxVal:
    """A regex literal recovered by constant folding."""

    def __init__(self, pattern, flags=0):
        self.pattern = pattern
        self.flags = int(flags)
        self._c = None

    def compiled(self):
        if self._c is None:
            self._c = re.compile(self.pattern, self.flags)
        return self._c

    def __repr__(self):
        return 'Rx(%r)' % self.pattern

    def __eq__(self, other):
        return isinstance(other, RxVal) and (other.pattern, other.flags) == (self.pattern, self.flags)

    def __hash__(self):
        return hash((self.pattern, self.flags))


def stdlib_unescape(interp, text):
    """html.unescape(text) as the stdlib computes it under the regex the program has installed as
    html._charref at this point of the interpretation (if any): the stdlib is the model of itself."""
    import html
    swapped = interp.gstate.get(('html', '_charref'))
    saved = html._charref
    try:
        if isinstance(swapped, RxVal):
            html._charref = swapped.compiled()
        return html.unescape(text)
    finally:
        html._charref = saved


class GlobalsProxy:
    def __init__(self, modname):
        self.modname = modname


class ExcVal:
    def __init__(self, kind, args=()):
        self.kind = kind
        self.args = args

    def __repr__(self):
        return 'Exc(%s)' % self.kind


class _Return(Exception):
    def __init__(self, value):
        self.value = value


class _Break(Exception):
    pass


class _Continue(Exception):
    pass


class Raised(Exception):
    """The interpreted code raised."""

    def __init__(self, exc, node=None):
        self.exc = exc
        self.node = node

    def __str__(self):
        return 'Raised(%r)' % (self.exc,)


class GenList(list):
    """Values of a generator expression (evaluated eagerly): a list that next() may consume."""


class GenVal:
    """Result of calling a generator function: the list of yielded values."""

    def __init__(self, items, retval=None):
        self.items = items
        self.retval = retval        # what `x = yield from gen()` evaluates to


# --------------------------------------------------------------------------
# decision oracle


class Oracle:
    def __init__(self, prefix=()):
        self.prefix = list(prefix)
        self.trace = []
        self.memo = {}

    def decide(self, key, tag):
        if key is not None and key in self.memo:
            return self.memo[key]
        i = len(self.trace)
        v = self.prefix[i] if i < len(self.prefix) else False
        self.trace.append((tag, v))
        if key is not None:
            self.memo[key] = v
        return v


def enumerate_paths(run, max_paths=20000):
    """run(oracle) -> result; yields (trace, result) for every decision sequence."""
    stack = [[]]
    n = 0
    while stack:
        prefix = stack.pop()
        o = Oracle(prefix)
        try:
            res = run(o)
            feasible = True
        except Infeasible:
            res = None
            feasible = False
        n += 1
        if n > max_paths:
            raise PathLimit('more than %d paths' % max_paths)
        if feasible:
            yield o.trace, res
        for i in range(len(o.trace) - 1, len(prefix) - 1, -1):
            stack.append([v for _, v in o.trace[:i]] + [True])


# --------------------------------------------------------------------------


class Frame:
    def __init__(self, func, modname, locals_, parent=None, cls=None):
        self.func = func
        self.modname = modname
        self.locals = locals_
        self.parent = parent
        self.cls = cls
        self.globals_declared = set()
        self.yields = None


PURE_EXTERNALS = {
    # data tables of the standard library (the HTML5 entity names are what CommonMark refers to)
    'html.entities.html5': __import__('html.entities').entities.html5,
    'html.entities.name2codepoint': __import__('html.entities').entities.name2codepoint,
    'html.entities.codepoint2name': __import__('html.entities').entities.codepoint2name,
    'builtins.len': len, 'builtins.any': any, 'builtins.all': all,
    'builtins.enumerate': lambda *a, **k: list(enumerate(*a, **k)),
    'builtins.range': range, 'builtins.reversed': lambda x: list(reversed(x)),
    'builtins.sorted': sorted, 'builtins.list': list, 'builtins.tuple': tuple,
    'builtins.set': set, 'builtins.frozenset': frozenset, 'builtins.dict': dict,
    'builtins.str': str, 'builtins.int': int, 'builtins.bool': bool,
    'builtins.zip': lambda *a: list(zip(*a)), 'builtins.max': max, 'builtins.min': min,
    'builtins.sum': sum, 'builtins.ord': ord, 'builtins.chr': chr, 'builtins.repr': repr,
    'builtins.abs': abs,
    'builtins.set.union': set.union,
    'builtins.str.lower': str.lower, 'builtins.str.upper': str.upper,
    'builtins.str.strip': str.strip, 'builtins.str.join': str.join,
    'builtins.str.maketrans': str.maketrans,
    'itertools.chain': lambda *a: list(itertools.chain(*a)),
    'itertools.chain.from_iterable': lambda a: list(itertools.chain.from_iterable(a)),
    'itertools.zip_longest': lambda *a, **k: list(itertools.zip_longest(*a, **k)),
    'unicodedata.category': unicodedata.category,
    'string.punctuation': _string_mod.punctuation,
    'string.digits': _string_mod.digits,
    'sys.maxunicode': sys.maxunicode,
    're.DOTALL': re.DOTALL, 're.MULTILINE': re.MULTILINE, 're.IGNORECASE': re.IGNORECASE,
    're.escape': re.escape,
}
class DequeList(list):
    """collections.deque as the analysed program uses it (a stack or queue of values): a list with the deque methods."""

    def __init__(self, it=(), maxlen=None):
        list.__init__(self, it)

    def popleft(self):
        return self.pop(0)

    def appendleft(self, x):
        self.insert(0, x)

    def extendleft(self, xs):
        for x in xs:
            self.insert(0, x)

    def rotate(self, n=1):
        if self:
            n %= len(self)
            self[:] = self[-n:] + self[:-n]


PURE_EXTERNALS['collections.deque'] = DequeList
PURE_EXTERNALS['builtins.slice'] = slice
# every constant of the string module, every flag of re (long and short names)
for _n in ('ascii_letters', 'ascii_lowercase', 'ascii_uppercase', 'hexdigits', 'octdigits', 'printable', 'whitespace'):
    PURE_EXTERNALS['string.' + _n] = getattr(_string_mod, _n)
for _n in ('VERBOSE', 'X', 'ASCII', 'A', 'S', 'M', 'I', 'UNICODE', 'U', 'NOFLAG'):
    if hasattr(re, _n):
        PURE_EXTERNALS['re.' + _n] = int(getattr(re, _n))

STRUCTURAL_EXTERNALS = {'builtins.zip', 'itertools.zip_longest', 'itertools.chain', 'builtins.reversed',
                        'itertools.chain.from_iterable'}

EXTERNAL_TYPES = {
    'builtins.str': str, 'builtins.list': list, 'builtins.tuple': tuple, 'builtins.int': int,
    'builtins.dict': dict, 'builtins.set': set, 'builtins.bool': bool,
}

_BINOPS = {
    ast.Add: operator.add, ast.Sub: operator.sub, ast.Mult: operator.mul,
    ast.Mod: operator.mod, ast.FloorDiv: operator.floordiv, ast.Div: operator.truediv,
    ast.BitOr: operator.or_, ast.BitAnd: operator.and_, ast.BitXor: operator.xor,
    ast.Pow: operator.pow, ast.LShift: operator.lshift, ast.RShift: operator.rshift,
}

_CMPOPS = {
    ast.Eq: operator.eq, ast.NotEq: operator.ne, ast.Lt: operator.lt, ast.LtE: operator.le,
    ast.Gt: operator.gt, ast.GtE: operator.ge,
}

_REFLECT = {ast.Lt: ast.Gt, ast.Gt: ast.Lt, ast.LtE: ast.GtE, ast.GtE: ast.LtE,
            ast.Eq: ast.Eq, ast.NotEq: ast.NotEq}


_LIST_METHODS = {'append', 'extend', 'insert', 'pop', 'remove', 'index', 'count', 'clear', 'sort', 'reverse', 'copy'}


def _is_list_subclass(cls):
    return any(getattr(b, 'dotted', '') == 'builtins.list' for b in cls.mro() if not isinstance(b, ClassInfo))


_NOFIRST = object()


def is_abstract(v):
    return isinstance(v, AbstractValue)


def contains_abstract(v, depth=0):
    if is_abstract(v):
        return True
    if depth < 3 and isinstance(v, (list, tuple, set, frozenset)):
        return any(contains_abstract(x, depth + 1) for x in v)
    if depth < 3 and isinstance(v, dict):
        return any(contains_abstract(x, depth + 1) for x in v.values())
    return False


class Interp:
    def __init__(self, model, loop_bound=2, max_steps=200000, max_depth=40, while_bound=None):
        self.model = model
        self.loop_bound = loop_bound
        self.while_bound = while_bound if while_bound is not None else loop_bound + 6
        self.max_steps = max_steps
        self.max_depth = max_depth
        self.gstate = {}        # (modname, name) -> value written at call time
        self.cstate = {}        # (class qualname, name) -> value written at call time
        self._fold_memo = {}
        self._fold_stack = []
        self.oracle = Oracle()
        self.notes = []
        self.steps = 0
        self.depth = 0
        self.call_stack = []
        self.intrinsics = {}    # dotted external name -> callable(interp, args, kwargs)
        self.func_hooks = {}    # FuncInfo.qualname -> callable(interp, args, kwargs, receiver) or None
        self.trace_calls = None  # optional list collecting (caller, callee) FuncInfo pairs
        self.on_stmt = None      # optional callback(interp, frame, stmt)
        self.on_recursion = None  # optional callback(interp, fi, args, kwargs) for re-entered functions
        self.on_index = None      # optional observer(interp, base, index, node) of every subscript evaluation
        self.loop_probe = None    # optional callback(interp, frame, while_stmt) -> hashable progress snapshot or None

    # ---- bookkeeping ---------------------------------------------------

    def note(self, *items):
        self.notes.append(items)

    def reset_run(self, oracle):
        self.oracle = oracle
        self.gstate = {}
        self.cstate = {}
        self.notes = []
        self.steps = 0
        self.depth = 0
        self.call_stack = []

    def decide(self, key, fresh=False):
        if isinstance(key, AbstractValue):
            # the decision is remembered under the object's identity: the object is kept alive for as long as the
            # oracle lives, or a later value allocated at the same address would inherit the decision
            keep = getattr(self.oracle, 'keep', None)
            if keep is None:
                keep = self.oracle.keep = []
            keep.append(key)
            return self.oracle.decide(id(key), getattr(key, 'tag', '?'))
        return self.oracle.decide(None if fresh else key, key)

    def truth(self, v):
        if is_abstract(v):
            if hasattr(v, 'abs_truth'):
                return v.abs_truth(self)
            return True
        if isinstance(v, Obj) and '__items__' in v.attrs:
            return bool(v.attrs['__items__'])
        if isinstance(v, (Obj, ClassInfo, FuncInfo, BoundMethod, LambdaVal, ModuleRef, ExternalRef, RxVal)):
            return True
        if isinstance(v, GenVal):
            return True
        return bool(v)

    # ---- name resolution -----------------------------------------------

    def ref_to_value(self, ref, modname=None, name=None):
        if ref is None:
            raise InterpError('unresolved name %s in %s' % (name, modname))
        if isinstance(ref, (ClassInfo, FuncInfo, ModuleRef)):
            return ref
        if isinstance(ref, ExternalRef):
            if ref.dotted in PURE_EXTERNALS and not callable(PURE_EXTERNALS[ref.dotted]):
                return PURE_EXTERNALS[ref.dotted]
            return ref
        if isinstance(ref, ValueRef):
            return self.fold_value(ref)
        raise InterpError('cannot evaluate reference %r' % (ref,))

    def fold_value(self, vref):
        if vref.owner is not None:
            key = ('C', vref.owner.qualname, vref.name)
            if (vref.owner.qualname, vref.name) in self.cstate:
                return self.cstate[(vref.owner.qualname, vref.name)]
        else:
            key = ('M', vref.modname, vref.name)
            if (vref.modname, vref.name) in self.gstate:
                return self.gstate[(vref.modname, vref.name)]
        if key in self._fold_memo:
            v = self._fold_memo[key]
            if v is _IN_PROGRESS:
                raise InterpError('cyclic constant %r' % (key,))
            return self._materialise(vref, v)
        v = self._fold_value_uncached(vref, key)
        return self._materialise(vref, v)

    def _materialise(self, vref, v):
        """A module-level mutable container is copied into the run's global state on first
        use, so that in-place updates (`x[:] = ...`, `.clear()`, `.insert`) are per run and
        visible to later reads, and the memoised import-time value stays pristine."""
        if vref.owner is None and type(v) in (list, dict, set):
            v = type(v)(v)
            self.gstate[(vref.modname, vref.name)] = v
        return v

    def global_value(self, modname, name):
        if (modname, name) in self.gstate:
            return self.gstate[(modname, name)]
        return self.ref_to_value(self.model.resolve(modname, name), modname, name)

    def _fold_value_uncached(self, vref, key):
        if not vref.exprs:
            v = Unknown('%s.%s' % (vref.modname, vref.name))
            self._fold_memo[key] = v
            return v
        self._fold_memo[key] = _IN_PROGRESS
        if vref.owner is None:
            self._fold_stack.append((vref.modname, vref.name))
            try:
                return self._fold_module_value(vref, key)
            finally:
                self._fold_stack.pop()
        return self._fold_module_value(vref, key)

    def _fold_module_value(self, vref, key):
        if vref.owner is None and self._needs_sequential(vref):
            try:
                v = self._fold_sequential(vref)
            except Exception:
                del self._fold_memo[key]
                raise
            self._fold_memo[key] = v
            return v
        try:
            frame = Frame(None, vref.modname, {}, cls=vref.owner)
            if vref.owner is not None:
                # class body scope: earlier class-level names are visible
                frame.class_scope = vref.owner
            saved = self.oracle
            v = self.eval(vref.exprs[-1], frame)
            self.oracle = saved
        except Exception:
            del self._fold_memo[key]
            raise
        self._fold_memo[key] = v
        return v

    def _needs_sequential(self, vref):
        u = self.model.units.get(vref.modname)
        if u is not None and any(self._touches_in_place(st, vref.name) for st in u.tree.body):
            return True
        if len(vref.exprs) < 2:
            return False
        for n in ast.walk(vref.exprs[-1]):
            if isinstance(n, ast.Name) and n.id == vref.name:
                return True
        return False

    @staticmethod
    def _touches_in_place(st, name):
        """Module-level statement that updates the object bound to `name` in place:
        name.update(...)/append(...), name[k] = v, del name[k]."""
        def is_name(e):
            return isinstance(e, ast.Name) and e.id == name
        if isinstance(st, ast.Expr) and isinstance(st.value, ast.Call) and isinstance(st.value.func, ast.Attribute) \
                and is_name(st.value.func.value) and st.value.func.attr in _LIST_METHODS | {'update', 'add', 'setdefault', 'discard'}:
            return True
        if isinstance(st, (ast.Assign, ast.AugAssign)):
            tgts = st.targets if isinstance(st, ast.Assign) else [st.target]
            return any(isinstance(t, ast.Subscript) and is_name(t.value) for t in tgts)
        if isinstance(st, ast.Delete):
            return any(isinstance(t, ast.Subscript) and is_name(t.value) for t in st.targets)
        return False

    def _fold_sequential(self, vref):
        """Module-level name rebound in terms of itself (e.g. inside a module-level loop):
        run, in order, the top-level statements that store to it."""
        u = self.model.units[vref.modname]
        frame = Frame(None, vref.modname, {})
        saved = self.oracle
        for st in u.tree.body:
            if self._touches_in_place(st, vref.name) and vref.name in frame.locals:
                self.exec_stmt(st, frame)
                continue
            if not isinstance(st, (ast.Assign, ast.AugAssign, ast.For, ast.AnnAssign)):
                continue
            stores = any(isinstance(n, ast.Name) and n.id == vref.name and isinstance(n.ctx, ast.Store)
                         for n in ast.walk(st))
            if stores:
                self.exec_stmt(st, frame)
        self.oracle = saved
        if vref.name not in frame.locals:
            raise InterpError('sequential fold failed for %s.%s' % (vref.modname, vref.name))
        return frame.locals[vref.name]

    def lookup_name(self, name, frame):
        f = frame
        while f is not None:
            if name in f.locals and name not in f.globals_declared:
                return f.locals[name]
            cs = getattr(f, 'class_scope', None)
            if cs is not None and name in cs.attrs:
                return self.fold_value(ValueRef(cs.modname, name, cs.attrs[name], owner=cs))
            f = f.parent
        if self._fold_stack and frame.func is None and frame.parent is None \
                and (frame.modname, name) != self._fold_stack[-1] \
                and (frame.modname, name) in self.model.rebindable_globals():
            # a module-level expression reads, at import time, a global that some function rebinds later:
            # what it captures is the object of that moment, not the one in force when the capture is used
            v = self.gstate[(frame.modname, name)] if (frame.modname, name) in self.gstate \
                else self.ref_to_value(self.model.resolve(frame.modname, name), frame.modname, name)
            return type(v)(v) if type(v) in (list, dict, set) else v
        if (frame.modname, name) in self.gstate:
            return self.gstate[(frame.modname, name)]
        ref = self.model.resolve(frame.modname, name)
        if ref is None:
            if name in ('True', 'False', 'None'):
                return {'True': True, 'False': False, 'None': None}[name]
            if hasattr(builtins, name):
                return self.ref_to_value(ExternalRef('builtins.' + name))
            f = frame
            while f is not None:
                if f.func is not None and _stores_name(f.func.node, name):
                    raise Raised(ExcVal('UnboundLocalError', (name,)))
                f = f.parent
            raise InterpError('unresolved name %r in %s' % (name, frame.modname))
        return self.ref_to_value(ref, frame.modname, name)

    # ---- attribute access ------------------------------------------------

    def class_attr(self, cls, name):
        """Value of attribute `name` looked up on class `cls` (receiver = the class)."""
        for c in cls.mro():
            if not isinstance(c, ClassInfo):
                continue
            if (c.qualname, name) in self.cstate:
                return self.cstate[(c.qualname, name)]
            if name in c.methods:
                fi = c.methods[name]
                if fi.kind == 'classmethod':
                    return BoundMethod(fi, cls)
                return fi
            if name in c.attrs:
                return self.fold_value(ValueRef(c.modname, name, c.attrs[name], owner=c))
            if name in getattr(c, 'nested', {}):
                return c.nested[name]
        return _MISSING

    def getattr(self, v, name, node=None):
        if is_abstract(v):
            if hasattr(v, 'abs_getattr'):
                return v.abs_getattr(self, name)
            return Unknown('attr:' + name)
        if isinstance(v, Obj):
            if name == '__class__':
                return v.cls
            if name == '__dict__':
                return v.attrs
            if name in v.attrs:
                return v.attrs[name]
            for c in v.cls.mro():
                if not isinstance(c, ClassInfo):
                    continue
                if (c.qualname, name) in self.cstate:
                    return self.cstate[(c.qualname, name)]
                if name in c.methods:
                    fi = c.methods[name]
                    if fi.kind == 'property':
                        return self.call_function(fi, [v], {})
                    if fi.kind == 'staticmethod':
                        return fi
                    if fi.kind == 'classmethod':
                        return BoundMethod(fi, v.cls)
                    return BoundMethod(fi, v)
                if name in c.attrs:
                    return self.fold_value(ValueRef(c.modname, name, c.attrs[name], owner=c))
            hit = v.cls.lookup('__getattr__')
            if hit is not None and hit[0] == 'method':
                return self.call_function(hit[1], [v, name], {})
            if name in _LIST_METHODS and _is_list_subclass(v.cls):
                return PyMethod(v.attrs.setdefault('__items__', []), name)
            raise Raised(ExcVal('AttributeError', (v.cls.short, name)), node)
        if isinstance(v, tuple) and getattr(type(v), '_sa_cls', None) is not None:
            # instance of a NamedTuple class of the package: fields, then what the class body defines
            if name in type(v)._fields:
                return v[type(v)._fields.index(name)]
            c = type(v)._sa_cls
            if name == '__class__':
                return c
            if name in c.methods:
                fi = c.methods[name]
                if fi.kind == 'property':
                    return self.call_function(fi, [v], {})
                if fi.kind == 'staticmethod':
                    return fi
                if fi.kind == 'classmethod':
                    return BoundMethod(fi, c)
                return BoundMethod(fi, v)
            if name in c.attrs:
                return self.fold_value(ValueRef(c.modname, name, c.attrs[name], owner=c))
        if isinstance(v, ClassInfo):
            if name == '__name__':
                return v.name
            if name == '__module__':
                return v.modname
            T = self.namedtuple_type(v)
            if T is not None and name in ('_make', '_fields', '_field_defaults'):
                return PyFunc(lambda it_: T(*list(self.iterate(it_))), '%s._make' % v.name) if name == '_make' else getattr(T, name)
            r = self.class_attr(v, name)
            if r is _MISSING:
                raise Raised(ExcVal('AttributeError', (v.short, name)), node)
            return r
        if isinstance(v, ModuleRef):
            if v.internal:
                if (v.modname, name) in self.gstate:
                    return self.gstate[(v.modname, name)]
                ref = self.model.resolve_attr(v, name)
                if ref is None:
                    raise Raised(ExcVal('AttributeError', (v.modname, name)), node)
                return self.ref_to_value(ref, v.modname, name)
            return self.ref_to_value(ExternalRef(v.modname + '.' + name))
        if isinstance(v, ExternalRef):
            return self.ref_to_value(ExternalRef(v.dotted + '.' + name))
        if isinstance(v, SuperVal):
            recv = v.receiver
            cls = recv.cls if isinstance(recv, Obj) else recv
            if not isinstance(cls, ClassInfo):
                return Unknown('super.' + name)
            hit = cls.lookup_after(v.defining_cls, name)
            if hit is None:
                return ExternalRef('object.' + name)
            if hit[0] == 'method':
                fi = hit[1]
                if fi.kind == 'staticmethod':
                    return fi
                if fi.kind == 'classmethod':
                    return BoundMethod(fi, cls)
                if fi.name == '__new__':
                    return fi
                return BoundMethod(fi, recv)
            return self.fold_value(hit[1])
        if isinstance(v, BoundMethod):
            if name == '__name__':
                return v.func.name
            if name == '__self__':
                return v.receiver
        if isinstance(v, FuncInfo) and name == '__name__':
            return v.name
        if isinstance(v, RxVal):
            if name == 'pattern':
                return v.pattern
            return PyMethod(v, name)
        if isinstance(v, GenVal):
            return PyMethod(v, name)
        # concrete python value
        try:
            attr = getattr(v, name)
        except AttributeError:
            raise Raised(ExcVal('AttributeError', (type(v).__name__, name)), node)
        if callable(attr):
            return PyMethod(v, name)
        return attr

    def setattr(self, v, name, value, node=None):
        if is_abstract(v):
            if hasattr(v, 'abs_setattr'):
                v.abs_setattr(self, name, value)
            return
        if isinstance(v, Obj):
            for c in v.cls.mro():
                if isinstance(c, ClassInfo) and name in c.setters:
                    self.call_function(c.setters[name], [v, value], {})
                    return
            v.attrs[name] = value
            return
        if isinstance(v, ClassInfo):
            self.cstate[(v.qualname, name)] = value
            self.note('class-write', v.qualname, name)
            return
        if isinstance(v, ModuleRef):
            self.gstate[(v.modname, name)] = value
            self.note('module-write', v.modname, name)
            return
        if isinstance(v, LambdaVal) or isinstance(v, FuncInfo):
            return
        try:
            setattr(v, name, value)
        except Exception:
            self.note('setattr-failed', repr(v), name)

    # ---- calls ----------------------------------------------------------

    def call(self, f, args, kwargs, node=None):
        self.steps += 1
        if self.steps > self.max_steps:
            raise InterpError('step budget exceeded')
        if isinstance(f, BoundMethod):
            return self.call_function(f.func, [f.receiver] + list(args), kwargs, node)
        if isinstance(f, FuncInfo):
            return self.call_function(f, list(args), kwargs, node)
        if isinstance(f, ClassInfo):
            return self.construct(f, list(args), kwargs, node)
        if isinstance(f, LambdaVal):
            fr = Frame(None, f.frame.modname, {}, parent=f.frame, cls=f.frame.cls)
            self.bind_args(f.node.args, fr, list(args), kwargs, '<lambda>')
            return self.eval(f.node.body, fr)
        if isinstance(f, PyMethod):
            return f.invoke(self, args, kwargs, node)
        if isinstance(f, ExternalRef):
            return self.call_external(f, args, kwargs, node)
        if is_abstract(f):
            if hasattr(f, 'abs_call'):
                return f.abs_call(self, args, kwargs)
            return Unknown('call')
        if callable(f):
            return self.call_python(f, args, kwargs)
        raise InterpError('cannot call %r' % (f,))

    def call_python(self, f, args, kwargs):
        if isinstance(f, type) and issubclass(f, tuple) and hasattr(f, '_fields'):
            try:
                return f(*args, **kwargs)       # a namedtuple holds whatever it is given
            except TypeError as e:
                raise Raised(ExcVal('TypeError', (str(e),)))
        if contains_abstract(list(args)) or contains_abstract(kwargs):
            return Unknown('py:%s' % getattr(f, '__name__', '?'))
        try:
            return f(*[self.concretize(a) for a in args], **{k: self.concretize(v) for k, v in kwargs.items()})
        except (Raised, _Return, _Break, _Continue, AnalysisError):
            raise
        except Exception as e:
            raise Raised(ExcVal(type(e).__name__, (str(e),)))

    def concretize(self, v):
        if isinstance(v, GenVal):
            return list(v.items)
        if isinstance(v, RxVal):
            return v.compiled()
        return v

    def _user_eq(self, o):
        hit = o.cls.lookup('__eq__') if isinstance(o.cls, ClassInfo) else None
        return hit[1] if hit is not None and hit[0] == 'method' else None

    def less_than(self, a, b):
        """a < b as the program would evaluate it: an analysed class's own __lt__ is interpreted."""
        if isinstance(a, Obj):
            hit = a.cls.lookup('__lt__')
            if hit is not None and hit[0] == 'method':
                return self.truth(self.call_function(hit[1], [a, b], {}))
            if isinstance(b, Obj):
                hit = b.cls.lookup('__gt__')
                if hit is not None and hit[0] == 'method':
                    return self.truth(self.call_function(hit[1], [b, a], {}))
            raise Raised(ExcVal('TypeError', ("'<' not supported between instances of %s" % a.cls.name,)))
        return self.truth(self.compare(ast.Lt, a, b))

    def sort_values(self, items, key=None, reverse=False):
        """Stable sort (insertion sort: same result as list.sort / sorted for a consistent order)."""
        if is_abstract(reverse):
            return Unknown('sorted-reverse')
        keys = [self.call(key, [x], {}) if key is not None else x for x in items]
        order = []
        for i in range(len(items)):
            j = len(order)
            # find the insertion point from the right, moving left only past strictly greater elements
            while j > 0 and (self.less_than(keys[i], keys[order[j - 1]]) if not reverse
                             else self.less_than(keys[order[j - 1]], keys[i])):
                j -= 1
            order.insert(j, i)
        return [items[i] for i in order]

    def call_external(self, ref, args, kwargs, node=None):
        d = ref.dotted
        if d in self.intrinsics:
            return self.intrinsics[d](self, list(args), kwargs)
        if d in ('re.sub', 're.subn', 're.split', 're.findall', 're.escape') and not contains_abstract(list(args)) \
                and not contains_abstract(kwargs):
            # pure functions of constants
            a = list(args)
            if d in ('re.sub', 're.subn') and len(a) > 1 and isinstance(a[1], (FuncInfo, LambdaVal, BoundMethod)):
                repl = a[1]
                a[1] = lambda m: self.call(repl, [m], {})
            try:
                return getattr(re, d.split('.')[1])(*a, **kwargs)
            except re.error as e:
                raise Raised(ExcVal('error', (str(e),)))
        if d == 'html.unescape' and len(args) == 1 and isinstance(args[0], str):
            return stdlib_unescape(self, args[0])
        if d == 'functools.partial' and args:
            return PartialVal(args[0], args[1:], kwargs)
        if d == 'itertools.repeat' and args and not kwargs:
            x = args[0]
            if len(args) == 1:
                return LazyIter(lambda: itertools.repeat(x), 'repeat')
            if isinstance(args[1], int):
                return [x] * args[1]
        if d in ('builtins.zip', 'itertools.chain', 'builtins.enumerate', 'builtins.list', 'builtins.tuple', 'builtins.reversed') \
                and args and any(isinstance(a, Obj) for a in args):
            # an instance of an analysed class (a list subclass, a class with __iter__) is iterated by the interpreter
            args = [list(self.iterate(a)) if isinstance(a, Obj) else a for a in args]
        if d in ('builtins.zip', 'itertools.chain') and not kwargs and any(is_abstract(a) for a in args):
            if all(hasattr(a, 'abs_iter') or not is_abstract(a) for a in args):
                its = list(args)
                if d == 'builtins.zip':
                    return LazyIter(lambda: zip(*[iter(self.iterate(a)) for a in its]), 'zip')
                return LazyIter(lambda: itertools.chain.from_iterable(self.iterate(a) for a in its), 'chain')
        if d == 'builtins.sorted':
            return self.sort_values(list(self.iterate(args[0])), kwargs.get('key'), kwargs.get('reverse', False))
        if d == 'builtins.isinstance':
            return self.isinstance_(args[0], args[1])
        if d == 'builtins.issubclass':
            return self.issubclass_(args[0], args[1])
        if d == 'builtins.getattr':
            if is_abstract(args[1]):
                return Unknown('getattr')
            try:
                return self.getattr(args[0], args[1], node)
            except Raised as r:
                if len(args) > 2 and r.exc.kind == 'AttributeError':
                    return args[2]
                raise
        if d == 'builtins.hasattr':
            if is_abstract(args[0]) and hasattr(args[0], 'abs_hasattr'):
                return args[0].abs_hasattr(self, args[1])
            if is_abstract(args[0]):
                return Unknown('hasattr')
            try:
                self.getattr(args[0], args[1], node)
                return True
            except Raised as r:
                if r.exc.kind == 'AttributeError':
                    return False
                raise
        if d == 'builtins.setattr':
            self.setattr(args[0], args[1], args[2])
            return None
        if d == 'builtins.vars':
            if isinstance(args[0], Obj):
                return args[0].attrs
            if is_abstract(args[0]) and hasattr(args[0], 'abs_vars'):
                return args[0].abs_vars(self)
            return Unknown('vars')
        if d == 'builtins.globals':
            return GlobalsProxy(self.call_stack[-1].modname if self.call_stack else None)
        if d == 'builtins.super':
            fr = self.call_stack[-1]
            recv = fr.receiver
            return SuperVal(recv, fr.func.cls)
        if d == 'operator.itemgetter' and args and not kwargs:
            keys = list(args)
            return PyFunc(lambda x: self.getitem(x, keys[0]) if len(keys) == 1 else tuple(self.getitem(x, k) for k in keys), 'itemgetter')
        if d == 'operator.attrgetter' and args and not kwargs and all(isinstance(a, str) and '.' not in a for a in args):
            names = list(args)
            return PyFunc(lambda x: self.getattr(x, names[0]) if len(names) == 1 else tuple(self.getattr(x, n) for n in names), 'attrgetter')
        if d == 'collections.namedtuple' and len(args) >= 2 and isinstance(args[0], str):
            import collections
            fields = args[1].replace(',', ' ').split() if isinstance(args[1], str) else list(args[1])
            if all(isinstance(f_, str) for f_ in fields):
                try:
                    return collections.namedtuple(args[0], fields, **{k: v for k, v in kwargs.items() if not is_abstract(v)})
                except Exception as ex:
                    raise Raised(ExcVal(type(ex).__name__, (str(ex),)))
        if d == 'builtins.iter' and len(args) == 2:
            # iter(callable, sentinel): the callable is called until it returns the sentinel
            fn, sentinel = args

            def until_sentinel():
                while True:
                    v = self.call(fn, [], {})
                    if v is sentinel:
                        return
                    if is_abstract(v) and hasattr(v, 'abs_is') and sentinel is None:
                        if self.truth(v.abs_is(self, None)):
                            return
                    elif not is_abstract(v) and not is_abstract(sentinel) and not isinstance(v, Obj) and v == sentinel:
                        return
                    yield v
            return LazyIter(until_sentinel, 'iter(callable, sentinel)')
        if d == 'builtins.iter' and len(args) == 1 and not is_abstract(args[0]) and isinstance(args[0], (list, tuple, str)):
            return GenList(list(args[0]))
        if d == 'builtins.next':
            it = args[0]
            if is_abstract(it) and hasattr(it, 'abs_next'):
                return it.abs_next(self, args[1:] )
            if isinstance(it, GenVal):
                if it.items:
                    return it.items.pop(0)
                if len(args) > 1:
                    return args[1]
                raise Raised(ExcVal('StopIteration'))
            if isinstance(it, Obj):
                hit = it.cls.lookup('__next__')
                if hit is not None and hit[0] == 'method':
                    try:
                        return self.call_function(hit[1], [it], {})
                    except Raised as r:
                        if r.exc.kind == 'StopIteration' and len(args) > 1:
                            return args[1]
                        raise
            if isinstance(it, GenList):
                if it:
                    return it.pop(0)
                if len(args) > 1:
                    return args[1]
                raise Raised(ExcVal('StopIteration'))
            if isinstance(it, list):
                raise Raised(ExcVal('TypeError', ('list is not an iterator',)))
            return Unknown('next')
        if d == 'builtins.map':
            fn = args[0]
            its = [self.iterate(a) for a in args[1:]]
            return GenList([self.call(fn, list(t), {}) for t in zip(*its)])
        if d == 'builtins.filter':
            fn = args[0]
            out = []
            for x in self.iterate(args[1]):
                if self.truth(x if fn is None else self.call(fn, [x], {})):
                    out.append(x)
            return GenList(out)
        if d == 'builtins.len':
            a = args[0]
            if is_abstract(a):
                if hasattr(a, 'abs_len'):
                    return a.abs_len(self)
                return Unknown('len')
            if isinstance(a, GenVal):
                raise Raised(ExcVal('TypeError', ('len of generator',)))
            if isinstance(a, Obj):
                if _is_list_subclass(a.cls):
                    return len(a.attrs.get('__items__', []))
                raise Raised(ExcVal('TypeError', ('object has no len()',)))
            try:
                return len(a)
            except TypeError as e:
                raise Raised(ExcVal('TypeError', (str(e),)))
        if d in ('builtins.any', 'builtins.all'):
            want = d.endswith('any')
            for x in self.iterate(args[0]):
                if self.truth(x) == want:
                    return want
            return not want
        if d in ('builtins.set', 'builtins.frozenset') and args and is_abstract(args[0]):
            return Unknown('set(abstract)')
        if d in ('builtins.list', 'builtins.tuple', 'builtins.set') and args:
            items = list(self.iterate(args[0]))
            return {'builtins.list': list, 'builtins.tuple': tuple, 'builtins.set': set}[d](items)
        if d == 'builtins.enumerate':
            start = kwargs.get('start', args[1] if len(args) > 1 else 0)
            if is_abstract(args[0]) and not hasattr(args[0], 'abs_iter'):
                return Unknown('enumerate')
            out = []
            i = start
            for x in self.iterate(args[0]):
                out.append((i, x))
                i = self.binop(ast.Add, i, 1)
            return out
        if d == 'builtins.set.union' and contains_abstract(list(args)):
            return UnionSet(list(args))
        if d == 're.compile':
            if contains_abstract(list(args)):
                return Unknown('re.compile')
            return RxVal(args[0], args[1] if len(args) > 1 else kwargs.get('flags', 0))
        if d == 'builtins.object.__new__' or d == 'object.__new__':
            return Obj(args[0]) if isinstance(args[0], ClassInfo) else Unknown('object.__new__')
        if d.startswith('object.'):
            return None
        if d in STRUCTURAL_EXTERNALS and not any(is_abstract(a) for a in args) and not contains_abstract(kwargs):
            try:
                return PURE_EXTERNALS[d](*[self.concretize(a) for a in args], **kwargs)
            except Exception as e:
                raise Raised(ExcVal(type(e).__name__, (str(e),)))
        if d in PURE_EXTERNALS and callable(PURE_EXTERNALS[d]):
            return self.call_python(PURE_EXTERNALS[d], args, kwargs)
        if d.startswith('builtins.') and d.split('.')[-1].endswith(('Error', 'Exception', 'StopIteration', 'Interrupt')):
            return ExcVal(d.split('.')[-1], tuple(args))
        self.note('unknown-external-call', d)
        return Unknown('ext:' + d)

    def isinstance_(self, v, c):
        if isinstance(c, (tuple, list)):
            res = [self.isinstance_(v, x) for x in c]
            if any(r is True for r in res):
                return True
            if all(r is False for r in res):
                return False
            return Unknown('isinstance')
        if is_abstract(v):
            if hasattr(v, 'abs_isinstance'):
                return v.abs_isinstance(self, c)
            return Unknown('isinstance')
        if isinstance(v, Obj):
            if isinstance(c, ClassInfo):
                return v.cls.is_subclass_of(c)
            return False
        if isinstance(c, ExternalRef) and c.dotted in EXTERNAL_TYPES:
            return isinstance(v, EXTERNAL_TYPES[c.dotted])
        if isinstance(c, ClassInfo):
            sc = getattr(type(v), '_sa_cls', None)
            return sc is not None and sc.is_subclass_of(c)
        return Unknown('isinstance')

    def issubclass_(self, v, c):
        if isinstance(v, ClassInfo) and isinstance(c, ClassInfo):
            return v.is_subclass_of(c)
        if isinstance(c, (tuple, list)):
            return any(self.issubclass_(v, x) is True for x in c)
        return Unknown('issubclass')

    def namedtuple_type(self, cls):
        """For `class X(typing.NamedTuple)` of the analysed package: a real namedtuple type with the same fields and
        defaults (its instances are ordinary tuples for the interpreter; methods of the class body are found through
        `_sa_cls`). None for any other class."""
        T = getattr(cls, '_nt_type', _MISSING)
        if T is not _MISSING:
            return T
        T = None
        for b in getattr(cls.node, 'bases', []):
            try:
                r = self.model.resolve_expr(cls.modname, b)
            except Exception:
                r = None
            if isinstance(r, ExternalRef) and r.dotted == 'typing.NamedTuple':
                fields, defaults = [], []
                for st in cls.node.body:
                    if isinstance(st, ast.AnnAssign) and isinstance(st.target, ast.Name):
                        fields.append(st.target.id)
                        if st.value is not None:
                            defaults.append(self.eval(st.value, Frame(None, cls.modname, {})))
                T = collections.namedtuple(cls.name, fields, defaults=defaults or None)
                T._sa_cls = cls
        cls._nt_type = T
        return T

    def construct(self, cls, args, kwargs, node=None):
        hook = self.func_hooks.get('construct:' + cls.qualname)
        if hook is not None:
            r = hook(self, cls, args, kwargs)
            if r is not _MISSING:
                return r
        T = self.namedtuple_type(cls)
        if T is not None and cls.lookup('__new__') is None:
            try:
                return T(*args, **kwargs)
            except TypeError as ex:
                raise Raised(ExcVal('TypeError', (str(ex),)), node)
        hit = cls.lookup('__new__')
        if hit is not None and hit[0] == 'method':
            obj = self.call_function(hit[1], [cls] + args, kwargs, node)
            if not (isinstance(obj, Obj) and obj.cls.is_subclass_of(cls)):
                return obj
            if getattr(obj, '_init_done', False):
                return obj
        else:
            obj = Obj(cls)
        ih = cls.lookup('__init__')
        if ih is not None and ih[0] == 'method':
            self.call_function(ih[1], [obj] + args, kwargs, node)
        return obj

    def bind_args(self, a, frame, args, kwargs, fname):
        params = [x.arg for x in a.posonlyargs + a.args]
        defaults = a.defaults
        nreq = len(params) - len(defaults)
        kwargs = dict(kwargs)
        for i, p in enumerate(params):
            if i < len(args):
                frame.locals[p] = args[i]
            elif p in kwargs:
                frame.locals[p] = kwargs.pop(p)
            elif i >= nreq:
                frame.locals[p] = self.eval(defaults[i - nreq], Frame(None, frame.modname, {}, parent=frame.parent))
            else:
                raise Raised(ExcVal('TypeError', ('missing argument %s of %s' % (p, fname),)))
        extra = args[len(params):]
        if a.vararg:
            frame.locals[a.vararg.arg] = tuple(extra)
        elif extra:
            raise Raised(ExcVal('TypeError', ('too many arguments for %s' % fname,)))
        for kw, d in zip(a.kwonlyargs, a.kw_defaults):
            if kw.arg in kwargs:
                frame.locals[kw.arg] = kwargs.pop(kw.arg)
            elif d is not None:
                frame.locals[kw.arg] = self.eval(d, Frame(None, frame.modname, {}))
            else:
                raise Raised(ExcVal('TypeError', ('missing kw-only %s of %s' % (kw.arg, fname),)))
        if a.kwarg:
            frame.locals[a.kwarg.arg] = kwargs
        elif kwargs:
            raise Raised(ExcVal('TypeError', ('unexpected keyword %s for %s' % (sorted(kwargs), fname),)))

    def call_function(self, fi, args, kwargs, node=None):
        hook = self.func_hooks.get(fi.qualname)
        if hook is not None:
            if kwargs:
                # a hook sees one spelling of the call: keywords that continue the positional prefix are moved there
                a = fi.node.args
                names = [x.arg for x in a.posonlyargs + a.args]
                args, kwargs = list(args), dict(kwargs)
                while len(args) < len(names) and names[len(args)] in kwargs and not a.vararg:
                    args.append(kwargs.pop(names[len(args)]))
            r = hook(self, fi, args, kwargs)
            if r is not _MISSING:
                return r
        if self.on_recursion is not None and any(fr.func is fi for fr in self.call_stack):
            r = self.on_recursion(self, fi, args, kwargs)
            if r is not _MISSING:
                return r
        if self.trace_calls is not None and self.call_stack:
            self.trace_calls.append((self.call_stack[-1].func, fi))
        if self.depth >= self.max_depth:
            raise InterpError('call depth exceeded in %s' % fi.qualname)
        parent = None
        if fi.parent is not None:
            # closure: find the innermost active frame of the enclosing function
            for fr in reversed(self.call_stack):
                if fr.func is fi.parent:
                    parent = fr
                    break
            if parent is None:
                parent = getattr(fi, '_closure_frame', None)
        frame = Frame(fi, fi.modname, {}, parent=parent, cls=fi.cls)
        self.bind_args(fi.node.args, frame, args, kwargs, fi.qualname)
        frame.receiver = args[0] if args else None
        is_gen = _is_generator(fi.node)
        if is_gen:
            frame.yields = []
        self.call_stack.append(frame)
        self.depth += 1
        try:
            try:
                self.exec_block(fi.node.body, frame)
                ret = None
            except _Return as r:
                ret = r.value
        finally:
            self.depth -= 1
            self.call_stack.pop()
        if is_gen:
            return GenVal(frame.yields, ret)
        return ret

    # ---- iteration --------------------------------------------------------

    def iterate(self, v):
        if is_abstract(v):
            if hasattr(v, 'abs_iter'):
                return v.abs_iter(self)
            return Unknown('iter').abs_iter(self)
        if isinstance(v, GenVal):
            return list(v.items)
        if isinstance(v, GenList):
            # a generator / map / filter object is exhausted by the first pass over it
            items = list(v)
            del v[:]
            return items
        if isinstance(v, dict):
            return list(v.keys())
        if isinstance(v, (list, tuple, str, set, frozenset, range)):
            return list(v)
        if isinstance(v, Obj):
            nx = v.cls.lookup('__next__')
            if nx is not None and nx[0] == 'method':
                return self._iter_obj(v, nx[1])
            hit = v.cls.lookup('__iter__')
            if hit is not None:
                return Unknown('iter-obj').abs_iter(self)
            bases = [b for b in v.cls.mro() if not isinstance(b, ClassInfo)]
            if any(getattr(b, 'dotted', '') == 'builtins.list' for b in bases):
                return list(v.attrs.get('__items__', []))
        if v is None or isinstance(v, (int, float, bool)):
            raise Raised(ExcVal('TypeError', ('cannot unpack/iterate %r' % (v,),)))
        try:
            return list(v)
        except TypeError:
            raise InterpError('cannot iterate %r' % (v,))

    def _iter_obj(self, v, nxt):
        while True:
            try:
                x = self.call_function(nxt, [v], {})
            except Raised as r:
                if r.exc.kind == 'StopIteration':
                    return
                raise
            yield x

    # ---- statements -------------------------------------------------------

    def exec_block(self, body, frame):
        for st in body:
            self.exec_stmt(st, frame)

    def exec_stmt(self, st, frame):
        self.steps += 1
        if self.steps > self.max_steps:
            raise InterpError('step budget exceeded')
        if self.on_stmt is not None:
            self.on_stmt(self, frame, st)
        m = getattr(self, 'st_' + type(st).__name__, None)
        if m is None:
            raise InterpError('unsupported statement %s' % type(st).__name__)
        m(st, frame)

    def st_Expr(self, st, frame):
        self.eval(st.value, frame)

    def st_Pass(self, st, frame):
        pass

    def st_Global(self, st, frame):
        frame.globals_declared.update(st.names)

    def st_Nonlocal(self, st, frame):
        pass

    def st_Import(self, st, frame):
        for a in st.names:
            frame.locals[a.asname or a.name.split('.')[0]] = ModuleRef(a.name, a.name in self.model.units)

    def st_ImportFrom(self, st, frame):
        for a in st.names:
            base = st.module or ''
            if base in self.model.units:
                frame.locals[a.asname or a.name] = self.ref_to_value(self.model.resolve(base, a.name), base, a.name)
            else:
                frame.locals[a.asname or a.name] = self.ref_to_value(ExternalRef(base + '.' + a.name))

    def st_FunctionDef(self, st, frame):
        for fi in self.model.functions.values():
            if fi.node is st:
                fi._closure_frame = frame
                frame.locals[st.name] = fi
                return
        raise InterpError('nested def not indexed: %s' % st.name)

    def st_Return(self, st, frame):
        raise _Return(self.eval(st.value, frame) if st.value is not None else None)

    def st_Break(self, st, frame):
        raise _Break()

    def st_Continue(self, st, frame):
        raise _Continue()

    def st_Raise(self, st, frame):
        exc = self.eval(st.exc, frame) if st.exc is not None else ExcVal('reraise')
        if isinstance(exc, ExternalRef):
            exc = ExcVal(exc.dotted.split('.')[-1])
        if isinstance(exc, ClassInfo):
            exc = ExcVal(exc.name)
        if not isinstance(exc, ExcVal):
            exc = ExcVal('unknown', (exc,))
        raise Raised(exc, st)

    def st_Assert(self, st, frame):
        pass

    def st_Delete(self, st, frame):
        for t in st.targets:
            if isinstance(t, ast.Subscript):
                base = self.eval(t.value, frame)
                idx = self.eval_index(t.slice, frame)
                if is_abstract(base) or contains_abstract([idx]):
                    if is_abstract(base) and hasattr(base, 'abs_delitem'):
                        base.abs_delitem(self, idx)
                    continue
                try:
                    del base[idx]
                except Exception as e:
                    raise Raised(ExcVal(type(e).__name__), st)
            elif isinstance(t, ast.Name):
                frame.locals.pop(t.id, None)
            elif isinstance(t, ast.Attribute):
                base = self.eval(t.value, frame)
                if isinstance(base, Obj):
                    base.attrs.pop(t.attr, None)

    def st_Assign(self, st, frame):
        v = self.eval(st.value, frame)
        for t in st.targets:
            self.assign(t, v, frame, st)

    def st_AnnAssign(self, st, frame):
        if st.value is not None:
            self.assign(st.target, self.eval(st.value, frame), frame, st)

    def st_AugAssign(self, st, frame):
        cur = self.eval(_as_load(st.target), frame)
        v = self.binop(type(st.op), cur, self.eval(st.value, frame), inplace=True)
        self.assign(st.target, v, frame, st)

    def assign(self, t, v, frame, st=None):
        if isinstance(t, ast.Name):
            if t.id in frame.globals_declared:
                self.gstate[(frame.modname, t.id)] = v
                self.note('global-write', frame.modname, t.id)
            else:
                frame.locals[t.id] = v
        elif isinstance(t, ast.Attribute):
            self.setattr(self.eval(t.value, frame), t.attr, v, st)
        elif isinstance(t, ast.Subscript):
            base = self.eval(t.value, frame)
            idx = self.eval_index(t.slice, frame)
            if is_abstract(base):
                if hasattr(base, 'abs_setitem'):
                    base.abs_setitem(self, idx, v)
                return
            if contains_abstract([idx]):
                if isinstance(base, dict):
                    # keys that hold abstract values: equal when they are the same value (strings: same derivation
                    # from the same source), so a later lookup with the same key finds the entry
                    try:
                        base[idx] = v
                        return
                    except TypeError:
                        pass
                self.note('store-with-abstract-index')
                return
            try:
                base[idx] = v
            except Exception as e:
                raise Raised(ExcVal(type(e).__name__), st)
        elif isinstance(t, (ast.Tuple, ast.List)):
            star = [i for i, e in enumerate(t.elts) if isinstance(e, ast.Starred)]
            if isinstance(v, Unknown) or (is_abstract(v) and not hasattr(v, 'abs_iter')):
                for e in t.elts:
                    self.assign(e.value if isinstance(e, ast.Starred) else e, Unknown('unpack'), frame, st)
                return
            if is_abstract(v) and hasattr(v, 'abs_unpack'):
                items = v.abs_unpack(self, len(t.elts))
            else:
                items = list(self.iterate(v))
            if star:
                i = star[0]
                n_after = len(t.elts) - i - 1
                if len(items) < len(t.elts) - 1:
                    raise Raised(ExcVal('ValueError', ('not enough values to unpack',)), st)
                for e, x in zip(t.elts[:i], items[:i]):
                    self.assign(e, x, frame, st)
                self.assign(t.elts[i].value, list(items[i:len(items) - n_after]), frame, st)
                for e, x in zip(t.elts[i + 1:], items[len(items) - n_after:] if n_after else []):
                    self.assign(e, x, frame, st)
            else:
                if len(items) != len(t.elts):
                    raise Raised(ExcVal('ValueError', ('unpack arity %d != %d' % (len(items), len(t.elts)),)), st)
                for e, x in zip(t.elts, items):
                    self.assign(e, x, frame, st)
        elif isinstance(t, ast.Starred):
            self.assign(t.value, v, frame, st)
        else:
            raise InterpError('unsupported assignment target %s' % type(t).__name__)

    def st_If(self, st, frame):
        if self.truth(self.eval(st.test, frame)):
            self.exec_block(st.body, frame)
        else:
            self.exec_block(st.orelse, frame)

    def st_While(self, st, frame):
        n = 0
        snaps = []
        concrete = 0
        mark = None
        while True:
            now = len(self.oracle.trace) if self.oracle is not None else None
            if mark is not None and now == mark and concrete < 5000 and n > 0:
                # the whole previous iteration - condition and body - ran on constants alone (a scanner over a literal):
                # such iterations are executed, not bounded; the step budget still ends a loop that never stops
                concrete += 1
                n -= 1
            mark = now
            if not self.truth(self.eval(st.test, frame)):
                self.exec_block(st.orelse, frame)
                return
            n += 1
            if self.loop_probe is not None:
                snaps.append(self.loop_probe(self, frame, st))
            if n > self.while_bound:
                self.note('loop-truncated', getattr(st, 'lineno', 0))
                if snaps and snaps[0] is not None and len(set(snaps)) == 1:
                    # every explored iteration began in the same probed state: the loop makes no progress
                    raise Raised(ExcVal('NonTermination', ('while %s' % ast.unparse(st.test)[:60], snaps[0])), st)
                raise LoopTruncated(st)
            try:
                self.exec_block(st.body, frame)
            except _Break:
                return
            except _Continue:
                continue

    def st_For(self, st, frame):
        it = self.eval(st.iter, frame)
        broke = False
        for x in self.iterate(it):
            self.assign(st.target, x, frame, st)
            try:
                self.exec_block(st.body, frame)
            except _Break:
                broke = True
                break
            except _Continue:
                continue
        if not broke:
            self.exec_block(st.orelse, frame)

    def st_With(self, st, frame):
        managers = []
        for item in st.items:
            v = self.eval(item.context_expr, frame)
            entered = v
            if isinstance(v, Obj) and v.cls.lookup('__enter__') is not None:
                entered = self.call(self.getattr(v, '__enter__'), [], {})
            elif is_abstract(v) and hasattr(v, 'abs_enter'):
                entered = v.abs_enter(self)
            managers.append(v)
            if item.optional_vars is not None:
                self.assign(item.optional_vars, entered, frame, st)
        try:
            self.exec_block(st.body, frame)
        finally:
            for v in reversed(managers):
                if isinstance(v, Obj) and v.cls.lookup('__exit__') is not None:
                    self.call(self.getattr(v, '__exit__'), [None, None, None], {})
                elif is_abstract(v) and hasattr(v, 'abs_exit'):
                    v.abs_exit(self)

    def st_Try(self, st, frame):
        try:
            try:
                self.exec_block(st.body, frame)
            except Raised as r:
                for h in st.handlers:
                    if self.handler_matches(h, r.exc, frame):
                        if h.name:
                            frame.locals[h.name] = r.exc
                        self.exec_block(h.body, frame)
                        break
                else:
                    raise
            else:
                self.exec_block(st.orelse, frame)
        finally:
            if st.finalbody:
                self.exec_block(st.finalbody, frame)

    def handler_matches(self, h, exc, frame):
        if h.type is None:
            return True
        names = []
        for t in (h.type.elts if isinstance(h.type, ast.Tuple) else [h.type]):
            names.append(ast.unparse(t).split('.')[-1])
        return exc.kind in names or 'Exception' in names or 'BaseException' in names

    def st_ClassDef(self, st, frame):
        raise InterpError('nested class definitions are not modelled')

    # ---- expressions -------------------------------------------------------

    def eval(self, e, frame):
        m = getattr(self, 'ex_' + type(e).__name__, None)
        if m is None:
            raise InterpError('unsupported expression %s' % type(e).__name__)
        return m(e, frame)

    def ex_Constant(self, e, frame):
        return e.value

    def ex_Name(self, e, frame):
        return self.lookup_name(e.id, frame)

    def ex_Attribute(self, e, frame):
        return self.getattr(self.eval(e.value, frame), e.attr, e)

    def ex_Tuple(self, e, frame):
        return tuple(self.eval_elts(e.elts, frame))

    def ex_List(self, e, frame):
        return list(self.eval_elts(e.elts, frame))

    def ex_Set(self, e, frame):
        items = self.eval_elts(e.elts, frame)
        try:
            return set(items)
        except TypeError:
            return Unknown('set')

    def eval_elts(self, elts, frame):
        out = []
        for x in elts:
            if isinstance(x, ast.Starred):
                out.extend(self.iterate(self.eval(x.value, frame)))
            else:
                out.append(self.eval(x, frame))
        return out

    def ex_Dict(self, e, frame):
        d = {}
        for k, v in zip(e.keys, e.values):
            if k is None:
                d.update(self.eval(v, frame))
            else:
                d[self.eval(k, frame)] = self.eval(v, frame)
        return d

    def ex_JoinedStr(self, e, frame):
        # f'..{a}..{b:spec}..'  ==  '..{}..{:spec}..'.format(a, b): evaluated through the same (possibly
        # abstract) str.format, so that template domains see f-strings and format templates alike
        template, vals, abstract = [], [], False
        for v in e.values:
            if isinstance(v, ast.Constant):
                template.append(str(v.value).replace('{', '{{').replace('}', '}}'))
                continue
            x = self.eval(v.value, frame)
            spec = ''
            if v.format_spec is not None:
                spec = self.ex_JoinedStr(v.format_spec, frame)
                if not isinstance(spec, str):
                    return Unknown('fstring-spec')
            if v.conversion != -1:
                if is_abstract(x) or contains_abstract(x):
                    return Unknown('fstring-conversion')
                x = {115: str, 114: repr, 97: ascii}[v.conversion](x)
            abstract = abstract or is_abstract(x) or contains_abstract(x)
            vals.append(x)
            template.append('{:%s}' % spec if spec else '{}')
        template = ''.join(template)
        if abstract:
            hook = self.intrinsics.get('str.format')
            if hook is None:
                return Unknown('fstring')
            return hook(self, [template] + vals, {})
        try:
            return template.format(*[x.name if isinstance(x, ClassInfo) else x for x in vals])
        except Exception as ex:
            raise Raised(ExcVal(type(ex).__name__, (str(ex),)))

    def ex_Lambda(self, e, frame):
        return LambdaVal(e, frame)

    def ex_IfExp(self, e, frame):
        if self.truth(self.eval(e.test, frame)):
            return self.eval(e.body, frame)
        return self.eval(e.orelse, frame)

    def ex_BoolOp(self, e, frame):
        is_and = isinstance(e.op, ast.And)
        v = None
        for sub in e.values:
            v = self.eval(sub, frame)
            t = self.truth(v)
            if is_and and not t:
                return v if not is_abstract(v) else False
            if not is_and and t:
                return v if not is_abstract(v) else (v if not isinstance(v, Unknown) else True)
        return v if not isinstance(v, Unknown) else (True if is_and else False)

    def ex_UnaryOp(self, e, frame):
        v = self.eval(e.operand, frame)
        if isinstance(e.op, ast.Not):
            return not self.truth(v)
        if is_abstract(v):
            if hasattr(v, 'abs_unary'):
                return v.abs_unary(self, type(e.op))
            return Unknown('unary')
        if isinstance(e.op, ast.USub):
            return -v
        if isinstance(e.op, ast.UAdd):
            return +v
        return ~v

    def binop(self, op, a, b, inplace=False):
        if is_abstract(a) and hasattr(a, 'abs_binop'):
            r = a.abs_binop(self, op, b, False)
            if r is not NotImplemented:
                return r
        if is_abstract(b) and hasattr(b, 'abs_binop'):
            r = b.abs_binop(self, op, a, True)
            if r is not NotImplemented:
                return r
        if is_abstract(a) or is_abstract(b):
            return Unknown('binop')
        if isinstance(a, GenVal) or isinstance(b, GenVal):
            return Unknown('binop-gen')
        if inplace and isinstance(a, list) and op is ast.Add:
            a.extend(self.iterate(b))
            return a
        try:
            return _BINOPS[op](a, b)
        except Exception as ex:
            raise Raised(ExcVal(type(ex).__name__, (str(ex),)))

    def ex_BinOp(self, e, frame):
        return self.binop(type(e.op), self.eval(e.left, frame), self.eval(e.right, frame))

    def compare(self, op, a, b):
        if op in (ast.Is, ast.IsNot):
            if is_abstract(a) and hasattr(a, 'abs_is'):
                r = a.abs_is(self, b)
            elif is_abstract(b) and hasattr(b, 'abs_is'):
                r = b.abs_is(self, a)
            elif is_abstract(a) or is_abstract(b):
                if a is b:
                    r = True
                elif (b is None and not isinstance(a, Unknown)) or (a is None and not isinstance(b, Unknown)):
                    r = False       # a domain value that can stand for None says so itself (abs_is); the others are objects
                else:
                    r = Unknown('is')
            else:
                r = (a is b) or (_is_singleton(a) and _is_singleton(b) and a == b and type(a) is type(b))
            if op is ast.IsNot:
                return self.negate(r)
            return r
        if op in (ast.In, ast.NotIn):
            if is_abstract(b) and hasattr(b, 'abs_contains'):
                r = b.abs_contains(self, a)
            elif is_abstract(a) and hasattr(a, 'abs_in'):
                r = a.abs_in(self, b)
            elif is_abstract(a) or is_abstract(b):
                r = Unknown('in')
            elif isinstance(b, GlobalsProxy):
                r = self.model.resolve(b.modname, a) is not None
            elif isinstance(a, Obj) and isinstance(b, (list, tuple, set, frozenset, dict)) and self._user_eq(a) is not None:
                # membership among instances of an analysed class that defines __eq__: identity or its own equality
                r = False
                for x in list(b):
                    if x is a or (isinstance(x, Obj) and self.truth(self.call_function(self._user_eq(a), [a, x], {}))):
                        r = True
                        break
            else:
                try:
                    r = a in b
                except TypeError:
                    r = any(a is x or a == x for x in b)
            if op is ast.NotIn:
                return self.negate(r)
            return r
        if is_abstract(a) and hasattr(a, 'abs_compare'):
            r = a.abs_compare(self, op, b, False)
            if r is not NotImplemented:
                return r
        if is_abstract(b) and hasattr(b, 'abs_compare'):
            r = b.abs_compare(self, _REFLECT[op], a, True)
            if r is not NotImplemented:
                return r
        if is_abstract(a) or is_abstract(b):
            return Unknown('cmp')
        try:
            return _CMPOPS[op](a, b)
        except TypeError as ex:
            raise Raised(ExcVal('TypeError', (str(ex),)))

    def negate(self, r):
        if is_abstract(r):
            return not self.truth(r)
        return not r

    def ex_Compare(self, e, frame):
        left = self.eval(e.left, frame)
        result = True
        for op, right_e in zip(e.ops, e.comparators):
            right = self.eval(right_e, frame)
            r = self.compare(type(op), left, right)
            if len(e.ops) == 1:
                return r
            if not self.truth(r):
                return False
            left = right
        return result

    def eval_index(self, s, frame):
        if isinstance(s, ast.Slice):
            return slice(self.eval(s.lower, frame) if s.lower else None,
                         self.eval(s.upper, frame) if s.upper else None,
                         self.eval(s.step, frame) if s.step else None)
        return self.eval(s, frame)

    def ex_Subscript(self, e, frame):
        base = self.eval(e.value, frame)
        idx = self.eval_index(e.slice, frame)
        return self.getitem(base, idx, e)

    def getitem(self, base, idx, node=None):
        if self.on_index is not None:
            self.on_index(self, base, idx, node)
        if is_abstract(base):
            if hasattr(base, 'abs_getitem'):
                return base.abs_getitem(self, idx)
            return Unknown('getitem')
        if isinstance(base, GlobalsProxy):
            if is_abstract(idx):
                return Unknown('globals[]')
            ref = self.model.resolve(base.modname, idx)
            if ref is None:
                raise Raised(ExcVal('KeyError', (idx,)), node)
            return self.ref_to_value(ref, base.modname, idx)
        if isinstance(idx, slice):
            if contains_abstract([idx.start, idx.stop, idx.step]):
                return Unknown('slice')
        elif is_abstract(idx):
            if hasattr(idx, 'abs_index_into'):
                return idx.abs_index_into(self, base)
            return Unknown('index')
        if isinstance(base, GenVal):
            raise Raised(ExcVal('TypeError', ('generator not subscriptable',)), node)
        if isinstance(base, Obj) and _is_list_subclass(base.cls):
            base = base.attrs.get('__items__', [])
        try:
            return base[idx]
        except (IndexError, KeyError, TypeError) as ex:
            raise Raised(ExcVal(type(ex).__name__, (repr(idx),)), node)

    def ex_Slice(self, e, frame):
        return self.eval_index(e, frame)

    def ex_Starred(self, e, frame):
        raise InterpError('bare starred expression')

    def ex_Call(self, e, frame):
        f = self.eval(e.func, frame)
        args = []
        for a in e.args:
            if isinstance(a, ast.Starred):
                args.extend(self.iterate(self.eval(a.value, frame)))
            else:
                args.append(self.eval(a, frame))
        kwargs = {}
        for k in e.keywords:
            if k.arg is None:
                d = self.eval(k.value, frame)
                if isinstance(d, dict):
                    kwargs.update(d)
                elif is_abstract(d):
                    pass
            else:
                kwargs[k.arg] = self.eval(k.value, frame)
        self.call_stack_node = e
        return self.call(f, args, kwargs, e)

    def comp_loop(self, gens, frame, emit, i=0, first=_NOFIRST):
        if i == len(gens):
            emit()
            return
        g = gens[i]
        it = first if (i == 0 and first is not _NOFIRST) else self.eval(g.iter, frame)
        for x in self.iterate(it):
            self.assign(g.target, x, frame)
            if all(self.truth(self.eval(c, frame)) for c in g.ifs):
                self.comp_loop(gens, frame, emit, i + 1)

    def ex_ListComp(self, e, frame):
        out = []
        fr = Frame(frame.func, frame.modname, {}, parent=frame, cls=frame.cls)
        first = self.eval(e.generators[0].iter, fr)
        if isinstance(first, range) and len(first) > 100000 or isinstance(first, CodePoints):
            # a pass over (a large part of) the code space is not unrolled
            g = e.generators[0]
            if isinstance(first, range) and len(e.generators) == 1 and not g.ifs and isinstance(g.target, ast.Name) \
                    and isinstance(e.elt, ast.Call) and isinstance(e.elt.func, ast.Name) and e.elt.func.id == 'chr' \
                    and len(e.elt.args) == 1 and isinstance(e.elt.args[0], ast.Name) and e.elt.args[0].id == g.target.id:
                return CodePoints(first.start, first.stop)
            if isinstance(first, CodePoints):
                cats = _is_unicode_category_comp(e, lambda x: self.eval(x, frame))
                if cats is not None:
                    return UnicodeCategorySet(cats)
            return Unknown('comprehension over %r' % (first,))
        self.comp_loop(e.generators, fr, lambda: out.append(self.eval(e.elt, fr)), first=first)
        return out

    def ex_GeneratorExp(self, e, frame):
        # evaluated eagerly; the result is list-like everywhere, and next() consumes it from the front
        r = self.ex_ListComp(e, frame)
        return GenList(r) if isinstance(r, list) else r

    def ex_SetComp(self, e, frame):
        cats = _is_unicode_category_comp(e, lambda x: self.eval(x, frame))
        if cats is not None:
            if self._spent_generator(e.generators[0].iter, frame):
                return set()        # a one-shot generator that an earlier statement of the module has already run through
            return UnicodeCategorySet(cats)
        r = self.ex_ListComp(e, frame)
        return set(r) if isinstance(r, list) else r

    def _spent_generator(self, it, frame):
        """`it` names a module-level generator expression and this is not the first place of the module (in source
        order) that iterates it: a generator yields its items once."""
        if not isinstance(it, ast.Name):
            return False
        ref = self.model.resolve(frame.modname, it.id)
        if not isinstance(ref, ValueRef) or ref.owner is not None or len(ref.exprs) != 1 \
                or not isinstance(ref.exprs[0], ast.GeneratorExp):
            return False
        u = self.model.units.get(ref.modname)
        if u is None or ref.modname != frame.modname:
            return False
        uses = [n for n in ast.walk(u.tree) if isinstance(n, ast.Name) and n.id == it.id and isinstance(n.ctx, ast.Load)]
        first = min(uses, key=lambda n: (n.lineno, n.col_offset)) if uses else None
        return first is not None and first is not it and (first.lineno, first.col_offset) != (it.lineno, it.col_offset)

    def ex_DictComp(self, e, frame):
        out = {}
        fr = Frame(frame.func, frame.modname, {}, parent=frame, cls=frame.cls)

        def emit():
            out[self.eval(e.key, fr)] = self.eval(e.value, fr)
        self.comp_loop(e.generators, fr, emit)
        return out

    def ex_Yield(self, e, frame):
        f = frame
        while f.yields is None and f.parent is not None and f.func is frame.func:
            f = f.parent
        v = self.eval(e.value, frame) if e.value is not None else None
        if f.yields is None:
            raise InterpError('yield outside generator frame')
        f.yields.append(v)
        return None

    def ex_YieldFrom(self, e, frame):
        v = self.eval(e.value, frame)
        if frame.yields is None:
            raise InterpError('yield from outside generator frame')
        if is_abstract(v) and not hasattr(v, 'abs_iter'):
            frame.yields.append(StarOf(v))
        else:
            frame.yields.extend(self.iterate(v))
        return v.retval if isinstance(v, GenVal) else None

    def ex_NamedExpr(self, e, frame):
        v = self.eval(e.value, frame)
        self.assign(e.target, v, frame)
        return v


class StarOf(AbstractValue):
    """Zero or more items drawn from an abstract iterable (yield from <abstract>)."""

    def __init__(self, inner):
        self.inner = inner


class LoopTruncated(InterpError):
    def __init__(self, node):
        super().__init__('loop unrolling bound reached at line %s' % getattr(node, 'lineno', '?'))
        self.node = node


ALL_CATEGORIES = ('Lu', 'Ll', 'Lt', 'Lm', 'Lo', 'Mn', 'Mc', 'Me', 'Nd', 'Nl', 'No', 'Pc', 'Pd', 'Ps', 'Pe', 'Pi', 'Pf', 'Po',
                  'Sm', 'Sc', 'Sk', 'So', 'Zs', 'Zl', 'Zp', 'Cc', 'Cf', 'Cs', 'Co', 'Cn')


class UnicodeCategorySet(AbstractValue):
    """{c for c in <all code points> if <test on category(c)>} kept symbolic: the set of general categories
    whose members it holds."""

    def __init__(self, prefix_or_categories):
        if isinstance(prefix_or_categories, str):
            self.categories = frozenset(c for c in ALL_CATEGORIES if c.startswith(prefix_or_categories))
        else:
            self.categories = frozenset(prefix_or_categories)

    @property
    def prefix(self):
        """The one-letter class if the set is exactly that class (e.g. 'P' for all punctuation categories)."""
        for letter in 'LMNPSZC':
            if self.categories == frozenset(c for c in ALL_CATEGORIES if c.startswith(letter)):
                return letter
        return None

    def __repr__(self):
        return 'UnicodeCategorySet(%s)' % (self.prefix or sorted(self.categories))

    _members = {}

    def members(self):
        """The characters themselves (the Unicode database of the analysing interpreter), when something enumerates
        the set - sorting it into a regex character class, say."""
        k = self.categories
        if k not in UnicodeCategorySet._members:
            UnicodeCategorySet._members[k] = frozenset(c for c in map(chr, range(sys.maxunicode + 1)) if unicodedata.category(c) in k)
        return UnicodeCategorySet._members[k]

    def abs_iter(self, interp):
        return iter(sorted(self.members()))

    def abs_len(self, interp):
        return len(self.members())


class CodePoints(AbstractValue):
    """(chr(i) for i in range(lo, hi)) over a large part of the code space: never unrolled."""

    def __init__(self, lo, hi):
        self.lo, self.hi = lo, hi

    def __repr__(self):
        return 'CodePoints(%#x, %#x)' % (self.lo, self.hi)


class UnionSet(AbstractValue):
    def __init__(self, parts):
        self.parts = parts

    def abs_iter(self, interp):
        out = set()
        for p in self.parts:
            out |= set(interp.iterate(p))
        return iter(sorted(out))

    def abs_contains(self, interp, item):
        res = []
        for p in self.parts:
            res.append(interp.compare(ast.In, item, p))
        if any(r is True for r in res):
            return True
        if all(r is False for r in res):
            return False
        return Unknown('in-union')


def _is_unicode_category_comp(e, evaluate=None):
    """{c for c in X if <test>} where the test looks at c only through category(c): the set is a union of general
    categories. The test is evaluated once per category with category(c) replaced by that category's name (so it may
    be spelled with startswith, ==, in, slices, ...). Returns the frozenset of accepted categories, or None when the
    comprehension is not of that shape or the test cannot be evaluated on constants."""
    if len(e.generators) != 1 or not isinstance(e.elt, ast.Name):
        return None
    g = e.generators[0]
    if len(g.ifs) != 1 or not isinstance(g.target, ast.Name) or g.target.id != e.elt.id or evaluate is None:
        return None
    var = g.target.id
    test = g.ifs[0]

    def is_cat(x):
        return isinstance(x, ast.Call) and isinstance(x.func, (ast.Name, ast.Attribute)) and \
            (x.func.id if isinstance(x.func, ast.Name) else x.func.attr) == 'category' and len(x.args) == 1 \
            and isinstance(x.args[0], ast.Name) and x.args[0].id == var and not x.keywords
    cat_calls = [n for n in ast.walk(test) if is_cat(n)]
    if not cat_calls:
        return None
    inside = {id(n.args[0]) for n in cat_calls}
    if any(isinstance(n, ast.Name) and n.id == var and id(n) not in inside for n in ast.walk(test)):
        return None         # the element is also looked at directly

    src = ast.unparse(test)
    if src in _CATEGORY_COMP_MEMO:
        return _CATEGORY_COMP_MEMO[src]
    calls = sorted({ast.unparse(n) for n in cat_calls}, key=len, reverse=True)
    out = set()
    for cat in ALL_CATEGORIES:
        text = src
        for c_ in calls:
            text = text.replace(c_, repr(cat))      # the nodes carry parent links: substitution is done on the text
        try:
            t = ast.parse(text, mode='eval').body
            v = evaluate(t)
        except Exception:
            return None
        if is_abstract(v):
            return None
        if v:
            out.add(cat)
    _CATEGORY_COMP_MEMO[src] = frozenset(out)
    return _CATEGORY_COMP_MEMO[src]


_CATEGORY_COMP_MEMO = {}


class PyMethod:
    """Method of a concrete (constant) python value, e.g. ' '.join or list.append."""

    def __init__(self, recv, name):
        self.recv = recv
        self.name = name

    def __repr__(self):
        return '<pymethod %r.%s>' % (self.recv, self.name)

    def invoke(self, interp, args, kwargs, node=None):
        recv, name = self.recv, self.name
        if isinstance(recv, RxVal):
            hook = interp.intrinsics.get('rx.' + name)
            if hook is not None:
                return hook(interp, [recv] + list(args), kwargs)
            if contains_abstract(list(args)):
                return Unknown('rx.%s' % name)
            if name in ('sub', 'subn') and args and isinstance(args[0], (FuncInfo, LambdaVal, BoundMethod)):
                # a replacement function of the analysed program: interpreted on each (concrete) match
                repl = args[0]
                args = [lambda m: interp.call(repl, [m], {})] + list(args[1:])
            r = getattr(recv.compiled(), name)(*args, **kwargs)
            if name == 'finditer':
                return list(r)
            return r
        if isinstance(recv, GenVal):
            return Unknown('gen.%s' % name)
        hook = interp.intrinsics.get('str.' + name) if isinstance(recv, str) else None
        if isinstance(recv, str) and name == 'join' and len(args) == 1 and isinstance(args[0], GenVal):
            # what a generator function of the program yields, joined: the items are taken as a list
            args = [list(interp.iterate(args[0]))]
        if isinstance(recv, str) and (contains_abstract(list(args)) or contains_abstract(kwargs)):
            if hook is not None:
                return hook(interp, [recv] + list(args), kwargs)
            if name == 'join' and len(args) == 1 and isinstance(args[0], (list, tuple)):
                return Unknown('join')
            return Unknown('str.%s' % name)
        if isinstance(recv, (list, dict, set)) and name in ('append', 'extend', 'insert', 'remove', 'pop',
                                                           'update', 'add', 'clear', 'setdefault', 'get',
                                                           'index', 'count', 'items', 'keys', 'values',
                                                           'copy', 'discard', 'sort', 'reverse'):
            a = [interp.concretize(x) if isinstance(x, GenVal) else x for x in args]
            try:
                if name == 'remove' and isinstance(recv, list):
                    for i, x in enumerate(recv):
                        if x is a[0] or (not is_abstract(x) and not is_abstract(a[0]) and x == a[0]):
                            del recv[i]
                            return None
                    raise ValueError('list.remove(x): x not in list')
                if name in ('items', 'keys', 'values'):
                    return list(getattr(recv, name)())
                if name == 'extend':
                    recv.extend(interp.iterate(a[0]))
                    return None
                if name == 'update' and isinstance(recv, set) and a and all(hasattr(x, 'abs_iter') or not is_abstract(x) for x in a):
                    for x in a:
                        recv.update(interp.iterate(x))
                    return None
                if name == 'update' and (isinstance(recv, set) and any(is_abstract(x) and not hasattr(x, 'abs_iter') for x in a)
                                         or isinstance(recv, dict) and any(is_abstract(x) for x in a)):
                    # members that are not enumerated (a class of code points): the concrete part stays as it is
                    interp.note('set-update-not-enumerated', getattr(node, 'lineno', 0))
                    return None
                if name == 'sort' and isinstance(recv, list):
                    recv[:] = interp.sort_values(list(recv), kwargs.get('key'), kwargs.get('reverse', False))
                    return None
                return getattr(recv, name)(*a, **kwargs)
            except (ValueError, IndexError, KeyError) as ex:
                raise Raised(ExcVal(type(ex).__name__, (str(ex),)), node)
        if name == 'format' and isinstance(recv, str):
            args = [x.name if isinstance(x, ClassInfo) else x for x in args]
        try:
            r = getattr(recv, name)(*[interp.concretize(x) for x in args],
                                    **{k: interp.concretize(v) for k, v in kwargs.items()})
        except (Raised, AnalysisError):
            raise
        except Exception as ex:
            raise Raised(ExcVal(type(ex).__name__, (str(ex),)), node)
        return r


class _Missing:
    def __repr__(self):
        return '<missing>'


_MISSING = _Missing()
_IN_PROGRESS = _Missing()
MISSING = _MISSING


def _is_singleton(v):
    return v is None or v is True or v is False or isinstance(v, (int, str))


def _as_load(t):
    import copy
    t2 = copy.copy(t)
    t2.ctx = ast.Load()
    return t2


def _stores_name(fnode, name):
    for n in ast.walk(fnode):
        if isinstance(n, ast.Name) and n.id == name and isinstance(n.ctx, ast.Store):
            return True
    return False


def _is_generator(fnode):
    stack = list(fnode.body)
    while stack:
        n = stack.pop()
        if isinstance(n, (ast.Yield, ast.YieldFrom)):
            return True
        if isinstance(n, (ast.FunctionDef, ast.AsyncFunctionDef, ast.Lambda, ast.ClassDef)):
            continue
        stack.extend(ast.iter_child_nodes(n))
    return False
